"""Attach postconditions / snapshots to the *real* molgri functions, in place.

Uses icontract (ensure / snapshot) when importable, otherwise a small built-in equivalent with the same
calling convention, so a verdict never depends on packaging.  Conditions are named functions whose
parameter names match the wrapped function's parameters, plus `result` and (with a snapshot) `OLD`.
Conditions *record* into vlib.rec.REC and return True: a violating call is not aborted, so the workload
continues and later violations are still seen.

Names bound with `from m import f` before decoration are found by identity over sys.modules and re-bound.
"""
from __future__ import annotations

import functools
import inspect
import sys

try:
    import icontract
    HAVE_ICONTRACT = True
except Exception:  # pragma: no cover
    icontract = None
    HAVE_ICONTRACT = False

from vlib.rec import REC

_INSTALLED = {}


class MonitorError(Exception):
    """Raised only if a condition itself returns False (conditions normally record and return True)."""


class _Old:
    pass


def _builtin_wrap(func, condition, snapshots):
    sig = inspect.signature(func)
    cond_params = list(inspect.signature(condition).parameters)
    snap_params = [(name, capture, list(inspect.signature(capture).parameters)) for name, capture in snapshots]

    @functools.wraps(func)
    def wrapper(*args, **kwargs):
        bound = sig.bind(*args, **kwargs)
        bound.apply_defaults()
        old = _Old()
        for name, capture, params in snap_params:
            setattr(old, name, capture(**{p: bound.arguments[p] for p in params}))
        result = func(*args, **kwargs)
        env = dict(bound.arguments)
        env["result"] = result
        env["OLD"] = old
        condition(**{p: env[p] for p in cond_params})
        return result

    return wrapper


def wrap(func, condition, snapshots=()):
    """Return func wrapped with postcondition `condition` and the `snapshots` [(name, capture_fn), ...]."""
    if HAVE_ICONTRACT:
        wrapped = icontract.ensure(condition, error=MonitorError, enabled=True)(func)  # enabled even under python -O
        for name, capture in snapshots:
            wrapped = icontract.snapshot(capture, name=name, enabled=True)(wrapped)
        return wrapped
    return _builtin_wrap(func, condition, snapshots)


def _rebind_aliases(old, new):
    n = 0
    for mod in list(sys.modules.values()):
        d = getattr(mod, "__dict__", None)
        if not d or not getattr(mod, "__name__", "").startswith("molgri"):
            continue
        for k, v in list(d.items()):
            if v is old:
                d[k] = new
                n += 1
    return n


def ensure(owner, name, condition, snapshots=(), key=None):
    """Decorate owner.name (class method or module function) in place; idempotent per (owner, name, key)."""
    ident = (id(owner), name, key or condition.__name__)
    if ident in _INSTALLED:
        return _INSTALLED[ident]
    raw = owner.__dict__[name] if isinstance(owner, type) else getattr(owner, name)
    is_cm = isinstance(raw, classmethod)
    is_sm = isinstance(raw, staticmethod)
    func = raw.__func__ if (is_cm or is_sm) else raw
    wrapped = wrap(func, condition, snapshots)
    new = classmethod(wrapped) if is_cm else staticmethod(wrapped) if is_sm else wrapped
    setattr(owner, name, new)
    if not isinstance(owner, type):
        _rebind_aliases(func, wrapped)
    _INSTALLED[ident] = wrapped
    REC.extra.setdefault("attached", []).append(f"{getattr(owner, '__name__', owner)}.{name}<-{condition.__name__}")
    return wrapped


def guard_exceptions(owner, name, monitor, allowed=(), classify=None):
    """Exception monitor: an exception escaping owner.name that is not in `allowed` is recorded as a violation
    (and re-raised so the caller's behaviour is unchanged)."""
    ident = (id(owner), name, "exc:" + monitor)
    if ident in _INSTALLED:
        return
    func = owner.__dict__[name] if isinstance(owner, type) else getattr(owner, name)

    @functools.wraps(func)
    def wrapper(*args, **kwargs):
        try:
            out = func(*args, **kwargs)
        except allowed:
            REC.ok(monitor + ".allowed_exception")
            raise
        except Exception as e:
            REC.crashed(monitor, e, mechanism=classify(e, args, kwargs) if classify else None)
            raise
        REC.ok(monitor)
        return out

    setattr(owner, name, wrapper)
    if not isinstance(owner, type):
        _rebind_aliases(func, wrapper)
    _INSTALLED[ident] = wrapper


def outcome(owner, name, observer, key=None):
    """Outcome monitor: observer(bound_arguments: dict, result, exc) is called after every call of owner.name, whether it
    returned or raised (icontract postconditions do not run after a raise); the call's own behaviour is unchanged."""
    ident = (id(owner), name, "outcome:" + (key or observer.__name__))
    if ident in _INSTALLED:
        return
    func = owner.__dict__[name] if isinstance(owner, type) else getattr(owner, name)
    sig = inspect.signature(func)

    @functools.wraps(func)
    def wrapper(*args, **kwargs):
        try:
            bound = sig.bind(*args, **kwargs)
            bound.apply_defaults()
            arguments = dict(bound.arguments)
        except TypeError:
            arguments = {"args": args, "kwargs": kwargs}
        try:
            out = func(*args, **kwargs)
        except Exception as e:
            observer(arguments, None, e)
            raise
        observer(arguments, out, None)
        return out

    setattr(owner, name, wrapper)
    if not isinstance(owner, type):
        _rebind_aliases(func, wrapper)
    _INSTALLED[ident] = wrapper
    REC.extra.setdefault("attached", []).append(f"{getattr(owner, '__name__', owner)}.{name}<-{observer.__name__}")
