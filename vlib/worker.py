"""Run one shard (or one replay case) of a property in this process and write the recorder's report as JSON.

usage: python -m vlib.worker <prop-id> <spec.json> <out.json>
"""
import importlib
import json
import os
import sys
import time
import traceback


def main():
    prop, spec_path, out_path = sys.argv[1:4]
    spec = json.load(open(spec_path))
    # molgri prints a lot (also from forked children): silence fd 1, keep fd 2 in a log next to the output
    devnull = os.open(os.devnull, os.O_WRONLY)
    os.dup2(devnull, 1)
    log = os.open(out_path + ".log", os.O_WRONLY | os.O_CREAT | os.O_TRUNC)
    os.dup2(log, 2)
    import warnings
    warnings.filterwarnings("ignore")
    t0 = time.time()
    from vlib.rec import REC
    status = "done"
    err = None
    try:
        mod = importlib.import_module(f"vlib.props.{prop.lower()}")
        import molgri
        REC.extra["molgri_file"] = molgri.__file__
        state = os.environ.get("VERIF_PROCESS_STATE", "default")
        REC.classes[f"process_state={state}"] += 1
        if state == "hostile":
            import numpy as np
            np.set_printoptions(precision=2, threshold=4, edgeitems=1, linewidth=30, suppress=True)
        if spec.get("__replay__"):
            mod.replay(spec["case"])
        else:
            mod.run_shard(spec)
    except BaseException as e:  # the harness failed, not the code under test
        status = "harness_error"
        err = "".join(traceback.format_exception(type(e), e, e.__traceback__))[-4000:]
    rep = REC.report()
    rep["status"] = status
    rep["error"] = err
    rep["wall_s"] = time.time() - t0
    with open(out_path + ".tmp", "w") as f:
        json.dump(rep, f)
    os.replace(out_path + ".tmp", out_path)


if __name__ == "__main__":
    main()
