"""Monitors on the real 4-D (rotation) grid getters: C04 (deciding) and, for small grids, cross-cutting in C02/C14 workloads.

Outcome monitors on AbstractVoronoi.get_voronoi_adjacency / get_cell_borders / get_center_distances; they act on HalfRotobjVoronoi objects
called with the default folding arguments (only_upper, include_opposing_neighbours).  Oracle: vlib.oracles.hypersphere on the double cover.
"""
import hashlib

import numpy as np

from vlib import attach
from vlib.oracles import hypersphere
from vlib.rec import REC

AMBIG_LO, AMBIG_HI = 1e-13, 1e-8
BORDER_TOL = 2e-8      # absolute part; observed agreement with the repaired tree <= 7e-9 over every grid of the thorough sweep (N <= 130)
MAX_N = 10 ** 9          # cross-cutting users lower this so that foreign workloads do not pay the O(N^2) LPs for big grids
_CACHE = {}


def oracle_for(G):
    key = hashlib.md5(np.ascontiguousarray(G).tobytes()).hexdigest()
    if key not in _CACHE:
        if len(_CACHE) > 16:
            _CACHE.clear()
        _CACHE[key] = hypersphere.double_cover_faces(G)
    return _CACHE[key]


def _judge(self, kwargs, result, what):
    mon = f"C04.{what}"
    try:
        from molgri.space.voronoi import HalfRotobjVoronoi
        if not isinstance(self, HalfRotobjVoronoi):
            return
        kw = kwargs or {}
        if not kw.get("only_upper", True) or not kw.get("include_opposing_neighbours", True):
            return  # non-default forms are not the property's matrices
        judge_points(np.asarray(self.my_array, dtype=float), result, what, holder=self)
    except Exception as e:
        REC.crashed("C04.oracle_error", e)


def judge_points(P, result, what, holder=None):
    """judge one default folded matrix of a rotation grid whose double cover is P (2N,4), whatever class produced it"""
    mon = f"C04.{what}"
    self = holder
    try:
        N = len(P) // 2
        G = P[:N]
        if P.shape != (2 * N, 4) or not np.array_equal(P[N:], -G):
            REC.skip(mon, "array is not a [G; -G] double cover")
            return
        if N > MAX_N:
            REC.skip(mon, "grid larger than the cross-cutting limit")
            return
        direct, anti = oracle_for(G)
        off = ~np.eye(N, dtype=bool)
        big = np.maximum(direct, anti)
        must = (big > AMBIG_HI) & off
        mustnot = (big < AMBIG_LO) & off
        amb = off & ~(must | mustnot)
        has_d, has_a = direct > AMBIG_HI, anti > AMBIG_HI
        one_face = off & ((has_d & (anti < AMBIG_LO)) | (has_a & (direct < AMBIG_LO)))   # exactly one face, the other clearly absent
        two_face = off & has_d & has_a
        problems = []
        c = result.tocoo()
        if c.shape != (N, N):
            problems.append(f"shape {c.shape} != {(N, N)}")
        else:
            data = np.asarray(c.data, dtype=float)
            if not np.all(np.isfinite(data)):
                problems.append("non-finite stored entries")
            if np.any(data <= 0):
                problems.append(f"{int(np.sum(data <= 0))} stored entries <= 0")
            if np.any(c.row == c.col):
                problems.append({"stored_diagonal_entries": int(np.sum(c.row == c.col)), "self_contact_area": float(np.diag(anti).max())})
            D = c.toarray().astype(float)
            if not np.allclose(D, D.T, rtol=1e-8, atol=1e-8):  # mirror faces are computed separately: absolute noise ~1e-10
                i, j = np.unravel_index(np.argmax(np.abs(D - D.T)), D.shape)
                problems.append({"not_symmetric": [int(i), int(j)], "a_ij": D[i, j], "a_ji": D[j, i],
                                 "involves_index_0": bool(i == 0 or j == 0)})
            stored = (D != 0) & off
            missing = must & ~stored
            extra = mustnot & stored
            if missing.any():
                i, j = np.argwhere(missing)[0]
                problems.append({"missing_neighbour": [int(i), int(j)], "direct_face": direct[i, j], "antipodal_face": anti[i, j],
                                 "only_through_antipode": bool(direct[i, j] <= AMBIG_HI)})
            if extra.any():
                i, j = np.argwhere(extra)[0]
                problems.append({"extra_neighbour": [int(i), int(j)], "stored": D[i, j]})
            if what == "center_distances":
                ang = np.arccos(np.clip(np.abs(G @ G.T), 0.0, 1.0))
                bad = must & stored & (np.abs(D - ang) > 1e-9)
                if bad.any():
                    i, j = np.argwhere(bad)[0]
                    problems.append({"distance": [int(i), int(j)], "reported": D[i, j], "min_over_sign_angle": ang[i, j]})
            elif what == "border_len":
                area = np.where(direct > AMBIG_HI, direct, anti)
                judged = one_face & stored
                bad = judged & (np.abs(D - area) > BORDER_TOL + 1e-6 * area)
                if bad.any():
                    i, j = np.argwhere(bad)[0]
                    problems.append({"border": [int(i), int(j)], "reported": D[i, j], "face_area": area[i, j],
                                     "through_antipode": bool(direct[i, j] <= AMBIG_HI)})
                if judged.any():
                    REC.extra.setdefault("C04_max_border_err_per_grid", []).append(float(np.abs(D - area)[judged].max()))
            elif what == "adjacency":
                if not np.all(D[stored] == 1):
                    problems.append("adjacency entries other than True/1")
            cur = hashlib.md5(np.packbits(stored).tobytes()).hexdigest()
            pat = getattr(self, "_verif_pattern4", None) if self is not None else None
            if pat is not None and pat != cur:
                problems.append("pattern differs from another getter of the same object")
            try:
                if self is not None:
                    self._verif_pattern4 = cur
            except Exception:
                pass
        if what == "adjacency":
            REC.notes["C04 pairs judged (i<j)"] += int(N * (N - 1) // 2)
            REC.notes["C04 pairs adjacent only through the antipodal copy"] += int(np.triu((anti > AMBIG_HI) & ~(direct > AMBIG_HI) & off).sum())
        if what == "adjacency":
            REC.notes["C04 adjacent pairs involving index 0"] += int(must[0].sum())
            REC.notes["C04 two-face contacts (border not judged)"] += int(np.triu(two_face).sum())
        if amb.any():
            REC.notes["C04 ambiguous faces (1e-13..1e-8)"] += int(np.triu(amb).sum())
        if problems:
            REC.fail(mon, {"N": N, "problems": problems[:4], "grid_head": G[:3]})
        else:
            REC.ok(mon)
    except Exception as e:
        REC.crashed("C04.oracle_error", e)


def adjacency_observer(arguments, result, exc):
    if exc is None:
        _judge(arguments["self"], arguments.get("kwargs"), result, "adjacency")


def borders_observer(arguments, result, exc):
    if exc is None:
        _judge(arguments["self"], arguments.get("kwargs"), result, "border_len")


def distances_observer(arguments, result, exc):
    if exc is None:
        _judge(arguments["self"], arguments.get("kwargs"), result, "center_distances")


def install(max_n=None):
    global MAX_N
    if max_n is not None:
        MAX_N = max_n
    from molgri.space import voronoi
    attach.outcome(voronoi.AbstractVoronoi, "get_voronoi_adjacency", adjacency_observer, key="c04a")
    attach.outcome(voronoi.AbstractVoronoi, "get_cell_borders", borders_observer, key="c04b")
    attach.outcome(voronoi.AbstractVoronoi, "get_center_distances", distances_observer, key="c04d")
