"""Tiers, seeds, shard fan-out (one subprocess per shard, timeout = watchdog), three-valued verdict,
evidence writer, replay writer, known-finding classifier."""
from __future__ import annotations

import argparse
import importlib
import json
import os
import shutil
import subprocess
import sys
import tempfile
import time
from collections import Counter
from concurrent.futures import ThreadPoolExecutor

VERIF = os.path.dirname(os.path.dirname(os.path.abspath(__file__)))
PYTHON = os.environ.get("VERIF_PYTHON", "/venv/bin/python")
WHEELS = "/opt/veriftools/wheels"


def repo_path():
    return os.path.abspath(os.environ.get("VERIF_REPO", "/repo"))


def ensure_deps():
    deps = os.path.join(VERIF, ".deps")
    if os.path.isdir(os.path.join(deps, "icontract")):
        return True
    try:
        subprocess.run([PYTHON, "-m", "pip", "install", "-q", "--no-index", "--find-links", WHEELS, "--target", deps,
                        "icontract"], check=True, stdout=subprocess.DEVNULL, stderr=subprocess.DEVNULL, timeout=300)
        return True
    except Exception:
        return False  # attach.py falls back to its built-in wrapper


def child_env(idx=0, seed=0):
    env = dict(os.environ)
    # every worker gets its own (reproducible) hash seed: results must not depend on set/dict iteration order of strings and tuples
    if "VERIF_HASHSEED" in os.environ:
        env["PYTHONHASHSEED"] = os.environ["VERIF_HASHSEED"]
    else:
        env["PYTHONHASHSEED"] = str((seed * 131 + idx * 7 + 1) % 4000)
    # VERIF_REPO first (so a scratch copy can be checked), then /verif, .deps last (never shadow the repo's own deps)
    env["PYTHONPATH"] = os.pathsep.join([repo_path(), VERIF])
    env["VERIF_DEPS"] = os.path.join(VERIF, ".deps")
    env["MOLGRI_VERIF"] = "1"
    for k in ("OMP_NUM_THREADS", "OPENBLAS_NUM_THREADS", "MKL_NUM_THREADS"):
        env[k] = "1"
    env["PYTHONWARNINGS"] = "ignore"
    env["MPLBACKEND"] = "agg"
    # half of the workers run with process-wide state a caller may legitimately have changed (numpy print options): results must not
    # depend on it.  (replays use the state the violation was seen in)
    # and every fourth worker runs under `python -O` (assert statements of the package stripped, as in a production run with
    # PYTHONOPTIMIZE): for the inputs the properties quantify over nothing may depend on an assert being executed.
    # VERIF_PROCESS_STATE=default|hostile|optimized overrides
    if "VERIF_PROCESS_STATE" not in os.environ:
        env["VERIF_PROCESS_STATE"] = ("default", "hostile", "default", "optimized")[(idx + seed) % 4]
    return env


def run_worker(prop, spec, scratch, idx, timeout):
    spec_path = os.path.join(scratch, f"spec_{idx}.json")
    out_path = os.path.join(scratch, f"out_{idx}.json")
    with open(spec_path, "w") as f:
        json.dump(spec, f)
    t0 = time.time()
    try:
        env = child_env(idx, int(spec.get("seed", 0) or 0))
        if spec.get("process_state"):
            env["VERIF_PROCESS_STATE"] = spec["process_state"]
        # optimised mode (python -O): assert statements of the package are stripped; for valid inputs the results must not change
        flags = ["-O"] if env.get("VERIF_PROCESS_STATE") == "optimized" else []
        p = subprocess.run([PYTHON, *flags, "-m", "vlib.worker", prop, spec_path, out_path], cwd=VERIF, env=env,
                           timeout=timeout, stdout=subprocess.DEVNULL, stderr=subprocess.DEVNULL,
                           start_new_session=True)
        rc = p.returncode
    except subprocess.TimeoutExpired:
        return {"status": "timeout", "wall_s": time.time() - t0, "spec": spec}
    if os.path.exists(out_path):
        rep = json.load(open(out_path))
    else:
        tail = ""
        try:
            tail = open(out_path + ".log").read()[-2000:]
        except Exception:
            pass
        rep = {"status": "died", "error": f"worker exit {rc}: {tail}", "wall_s": time.time() - t0}
    rep["spec"] = spec
    return rep


def load_known():
    p = os.path.join(VERIF, "known_findings.json")
    if not os.path.exists(p):
        return []
    return json.load(open(p)).get("findings", [])


def main(argv=None):
    ap = argparse.ArgumentParser()
    ap.add_argument("prop")
    ap.add_argument("--tier", default=os.environ.get("VERIF_TIER", "quick"), choices=["quick", "thorough"])
    ap.add_argument("--replay")
    ap.add_argument("--jobs", type=int, default=int(os.environ.get("VERIF_JOBS", os.cpu_count() or 4)))
    ap.add_argument("--no-evidence", action="store_true")
    args = ap.parse_args(argv)
    prop = args.prop.upper()
    seed = int(os.environ.get("VERIF_SEED", "0") or 0)
    ensure_deps()
    sys.path.insert(0, VERIF)
    mod = importlib.import_module(f"vlib.props.{prop.lower()}")
    t0 = time.time()
    scratch = tempfile.mkdtemp(prefix=f"verif_{prop}_")
    try:
        if args.replay:
            wit = json.load(open(args.replay))
            os.environ.setdefault("VERIF_PROCESS_STATE", wit["violation"].get("process_state", "default"))
            rep = run_worker(prop, {"__replay__": True, "case": wit["violation"]["case"]}, scratch, 0,
                             getattr(mod, "REPLAY_TIMEOUT", 1800))
            nv = rep.get("violation_count", 0)
            print(f"replay {args.replay}: status={rep.get('status')} violations={nv}")
            for v in rep.get("violations", [])[:5]:
                print("  ", v["monitor"], json.dumps(v["detail"])[:600])
            if rep.get("status") != "done":
                print("INCONCLUSIVE property=%s reason=%s" % (prop, rep.get("error", rep.get("status"))))
                return 2
            if nv:
                print(f"VIOLATION property={prop} replay={args.replay}")
                return 1
            return 0

        specs = mod.shards(args.tier, seed)
        for s in specs:
            s.setdefault("tier", args.tier)
            s.setdefault("seed", seed)
        default_to = getattr(mod, "SHARD_TIMEOUT", {"quick": 900, "thorough": 7200})[args.tier]
        with ThreadPoolExecutor(max_workers=max(1, args.jobs)) as ex:
            futs = [ex.submit(run_worker, prop, s, scratch, i, s.get("timeout", default_to)) for i, s in enumerate(specs)]
            reports = [f.result() for f in futs]
    finally:
        shutil.rmtree(scratch, ignore_errors=True)
    return finish(mod, prop, args.tier, seed, reports, time.time() - t0, write=not args.no_evidence)


def finish(mod, prop, tier, seed, reports, wall, write=True):
    monitors = {}
    classes = Counter()
    notes = Counter()
    nontrivial = set()
    violations = []
    violation_count = 0
    cases = 0
    samples = []
    extra = {}
    inconclusive = []
    molgri_files = set()
    for r in reports:
        if r.get("status") != "done":
            inconclusive.append(f"shard {json.dumps(r.get('spec'))[:200]} {r.get('status')}: {str(r.get('error'))[-600:]}")
            if "monitors" not in r:
                continue
        for k, v in r.get("monitors", {}).items():
            m = monitors.setdefault(k, Counter())
            m.update(v)
        classes.update(r.get("classes", {}))
        notes.update(r.get("notes", {}))
        nontrivial.update(r.get("nontrivial", []))
        violations.extend(r.get("violations", []))
        violation_count += r.get("violation_count", 0)
        cases += r.get("cases", 0)
        for s in r.get("samples", []):
            if len(samples) < 6:
                samples.append(s)
        ex = r.get("extra", {}) or {}
        if ex.get("molgri_file"):
            molgri_files.add(ex["molgri_file"])
        for k, v in ex.items():
            if k in ("molgri_file", "attached"):
                continue
            if isinstance(v, (int, float)) and not isinstance(v, bool):
                extra[k] = extra.get(k, 0) + v
            elif isinstance(v, list):
                extra.setdefault(k, [])
                if len(extra[k]) < 40:
                    extra[k].extend(v[:40 - len(extra[k])])
            else:
                extra.setdefault(k, v)
    for hp in extra.get("harness_problems", [])[:5]:
        inconclusive.append(f"oracle self-test failed: {json.dumps(hp)[:300]}")
    deciding = getattr(mod, "DECIDING", [])
    for d in deciding:
        if monitors.get(d, {}).get("calls", 0) == 0:
            inconclusive.append(f"deciding monitor {d} was never evaluated")
    evaluations = sum(monitors.get(d, {}).get("calls", 0) for d in deciding) if deciding else \
        sum(m.get("calls", 0) for m in monitors.values())
    min_nt = getattr(mod, "MIN_NONTRIVIAL", {"quick": 2, "thorough": 2})[tier]
    if len(nontrivial) < max(2, min_nt):
        inconclusive.append(f"only {len(nontrivial)} distinct non-trivial cases (< {max(2, min_nt)})")
    expected_repo = os.path.join(repo_path(), "molgri", "__init__.py")
    for mf in molgri_files:
        if os.path.abspath(mf) != expected_repo:
            inconclusive.append(f"molgri imported from {mf}, expected {expected_repo}")

    # ---- classify violations against the committed known-findings file --------------------------------
    known = [k for k in load_known() if k.get("property") == prop and k.get("status") == "open"]
    known_by_mech = {k["mechanism"]: k for k in known}
    fresh, seen_known = [], Counter()
    for v in violations:
        mech = v.get("mechanism")
        if mech and mech in known_by_mech:
            seen_known[mech] += 1
        else:
            fresh.append(v)
    # violations beyond the per-shard cap carry no witness; be conservative: they count as fresh unless every recorded one was known
    uncapped_unknown = violation_count - len(violations)

    replay_paths = []
    if fresh:
        rdir = os.path.join(VERIF, "replay", prop)
        os.makedirs(rdir, exist_ok=True)
        from vlib.rec import digest
        for v in fresh[:10]:
            path = os.path.join(rdir, digest(v) + ".json")
            with open(path, "w") as f:
                json.dump({"property": prop, "tier": tier, "seed": seed, "violation": v}, f, indent=1)
            replay_paths.append(path)

    verdict = "violated" if fresh else ("inconclusive" if inconclusive else "held")
    coverage = {
        "evaluations": int(evaluations),
        "distinct_nontrivial": len(nontrivial),
        "rule": getattr(mod, "RULE", ""),
        "samples": samples if samples else [{"note": "no sample recorded"}],
        "exhaustive": bool(getattr(mod, "EXHAUSTIVE", {}).get(tier, False)),
        "cases": cases,
        "monitors": {k: dict(v) for k, v in sorted(monitors.items())},
        "classes": dict(sorted(classes.items())),
        "ambiguous": int(sum(m.get("ambiguous", 0) for m in monitors.values())),
        "skipped": int(sum(m.get("skipped", 0) for m in monitors.values())),
        "notes": dict(notes),
        "known_findings_observed": dict(seen_known),
        "shards": len(reports),
        "verdict": verdict,
        "inconclusive_reasons": inconclusive,
        "repo": repo_path(),
        "extra": extra,
    }
    ev = {"property_id": prop, "tier": tier, "seed": seed, "level": getattr(mod, "LEVEL", "exploration"),
          "coverage": coverage, "assumptions": getattr(mod, "ASSUMPTIONS", []), "wall_s": round(wall, 2),
          "violations": len(fresh) + (uncapped_unknown if fresh else 0)}
    if write:
        os.makedirs(os.path.join(VERIF, "evidence"), exist_ok=True)
        path = os.path.join(VERIF, "evidence", f"{prop}.json")
        with open(path + ".tmp", "w") as f:
            json.dump(ev, f, indent=1, sort_keys=False)
        os.replace(path + ".tmp", path)

    # ---- report --------------------------------------------------------------------------------------
    print(f"[{prop}] tier={tier} seed={seed} shards={len(reports)} cases={cases} evaluations={evaluations} "
          f"distinct_nontrivial={len(nontrivial)} wall={wall:.1f}s verdict={verdict}")
    slow = sorted(((r.get("wall_s", 0), json.dumps(r.get("spec"))[:160]) for r in reports), reverse=True)[:2]
    print("   slowest shards: " + "; ".join(f"{w:.0f}s {sp}" for w, sp in slow))
    for k, v in sorted(monitors.items()):
        print(f"   monitor {k}: " + " ".join(f"{a}={b}" for a, b in sorted(v.items()) if b))
    for k in known:
        n = seen_known.get(k["mechanism"], 0)
        print(f"KNOWN-FINDING: property={prop} {k['id']} {k['what']} (observed {n} time(s) in this run)")
    if fresh:
        for v, pth in zip(fresh, replay_paths):
            print(f"   violation monitor={v['monitor']} mechanism={v.get('mechanism')} detail={json.dumps(v['detail'])[:500]}")
        print(f"VIOLATION property={prop} replay={replay_paths[0]}")
        return 1
    if inconclusive:
        for r in inconclusive[:10]:
            print(f"INCONCLUSIVE property={prop} reason={r}")
        return 2
    return 0


if __name__ == "__main__":
    sys.exit(main())
