"""Extra workload: the repository's own test modules executed with the monitors installed (in this worker process).

The tests' own assertions are not the verdict (their outcome is only noted); what counts is that every call they make to a monitored
function is judged by the same oracles - states nobody generated on purpose.  A monitor that fires here is either too strict or a defect
the tests do not assert: read the witness first.
"""
import os

from vlib.rec import REC


def run(modules, timeout_per_test=600):
    import pytest
    repo = os.environ.get("VERIF_REPO", "/repo")
    cwd = os.getcwd()
    os.chdir(repo)
    REC.begin_case({"kind": "repository tests under monitors", "modules": modules}, cls="repo tests under monitors")
    try:
        rc = pytest.main(["-q", "-p", "no:cacheprovider", "-p", "no:xdist", f"--timeout={timeout_per_test}", "-x", "--no-header", "-W",
                          "ignore"] + list(modules))
        REC.notes[f"repo tests {' '.join(modules)} -> pytest exit {int(rc)}"] += 1
        REC.nontrivial_case(("repo_tests", tuple(modules)))
    except BaseException as e:
        REC.notes[f"repo tests raised {type(e).__name__}"] += 1
    finally:
        os.chdir(cwd)
