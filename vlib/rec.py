"""Recorder: the shared state every monitor writes to.

A monitor is a named condition attached to a real molgri function.  Each time the real function is
called (by any workload) the condition evaluates its oracle and reports here:

    REC.ok(monitor)                               the oracle agreed with the observed result
    REC.fail(monitor, detail, mechanism=None)     the oracle disagreed -> a violation (with the current case)
    REC.ambiguous(monitor, why)                   inside an ambiguity band -> not judged, counted
    REC.skip(monitor, why)                        outside the property's quantifier -> not judged, counted

The workload sets REC.case to a JSON-able description of the input it is about to drive so that a
violation carries everything needed to replay it.
"""
from __future__ import annotations

import hashlib
import os
import json
import traceback
from collections import Counter, defaultdict

import numpy as np


def jsonable(x, depth=0):
    if depth > 6:
        return repr(x)[:200]
    if isinstance(x, (str, bool)) or x is None:
        return x
    if isinstance(x, (int, np.integer)):
        return int(x)
    if isinstance(x, (float, np.floating)):
        x = float(x)
        if x != x:
            return "nan"
        if x in (float("inf"), float("-inf")):
            return "inf" if x > 0 else "-inf"
        return x
    if isinstance(x, np.ndarray):
        if x.size > 400:
            return {"ndarray_shape": list(x.shape), "head": jsonable(x.ravel()[:20].tolist(), depth + 1)}
        return jsonable(x.tolist(), depth + 1)
    if isinstance(x, dict):
        return {str(k): jsonable(v, depth + 1) for k, v in x.items()}
    if isinstance(x, (list, tuple, set, frozenset)):
        return [jsonable(v, depth + 1) for v in x]
    return repr(x)[:300]


def digest(obj) -> str:
    return hashlib.md5(json.dumps(jsonable(obj), sort_keys=True).encode()).hexdigest()[:12]


class Recorder:
    MAX_VIOLATIONS = 40

    def __init__(self):
        self.monitors = defaultdict(lambda: {"calls": 0, "ok": 0, "fail": 0, "ambiguous": 0, "skipped": 0})
        self.violations = []
        self.violation_count = 0
        self.case = None
        self.classes = Counter()
        self.nontrivial = set()
        self.cases = 0
        self.samples = []
        self.notes = Counter()
        self.extra = {}

    # ---- monitors -------------------------------------------------------------------------------
    def ok(self, monitor, n=1):
        m = self.monitors[monitor]
        m["calls"] += n
        m["ok"] += n

    def fail(self, monitor, detail, mechanism=None, case=None):
        m = self.monitors[monitor]
        m["calls"] += 1
        m["fail"] += 1
        self.violation_count += 1
        if len(self.violations) < self.MAX_VIOLATIONS:
            self.violations.append({"monitor": monitor, "detail": jsonable(detail), "mechanism": mechanism,
                                    "case": jsonable(case if case is not None else self.case),
                                    "process_state": os.environ.get("VERIF_PROCESS_STATE", "default")})

    def ambiguous(self, monitor, why=""):
        self.monitors[monitor]["ambiguous"] += 1
        if why:
            self.notes["ambiguous:" + why] += 1

    def skip(self, monitor, why=""):
        self.monitors[monitor]["skipped"] += 1
        if why:
            self.notes["skipped:" + why] += 1

    def harness_problem(self, what, detail=None):
        """the harness could not trust its own oracle (self-test disagreement): makes the run INCONCLUSIVE, never a violation"""
        self.extra.setdefault("harness_problems", []).append({"what": what, "detail": jsonable(detail), "case": jsonable(self.case)})

    def check(self, monitor, cond, detail=None, mechanism=None):
        """cond True -> ok, False -> fail(detail).  `detail` may be a callable (evaluated only on failure)."""
        if cond:
            self.ok(monitor)
            return True
        if callable(detail):
            detail = detail()
        self.fail(monitor, detail, mechanism)
        return False

    def crashed(self, monitor, exc, mechanism=None):
        tb = traceback.format_exception(type(exc), exc, exc.__traceback__)
        self.fail(monitor, {"exception": type(exc).__name__, "message": str(exc)[:500],
                            "where": "".join(tb[-4:])[-1500:]}, mechanism)

    # ---- workload bookkeeping --------------------------------------------------------------------
    def begin_case(self, case, cls=None, sample=False):
        self.case = case
        self.cases += 1
        if cls is not None:
            for c in (cls if isinstance(cls, (list, tuple)) else [cls]):
                self.classes[str(c)] += 1
        if sample and len(self.samples) < 3:
            self.samples.append(jsonable(case))

    def nontrivial_case(self, key=None):
        self.nontrivial.add(digest(key if key is not None else self.case))

    def report(self):
        return {"monitors": {k: dict(v) for k, v in self.monitors.items()},
                "violations": self.violations, "violation_count": self.violation_count,
                "classes": dict(self.classes), "nontrivial": sorted(self.nontrivial), "cases": self.cases,
                "samples": self.samples, "notes": dict(self.notes), "extra": jsonable(self.extra)}


REC = Recorder()


def call_and_hold(calls, monitor, hostile_caller=False):
    """run the getter calls, keep every returned object with its digest at return time, and afterwards require that none of the held
    objects changed (a later getter that re-uses and overwrites an earlier result's buffers shows up here)"""
    from vlib.props.c08 import dg
    held = []
    for c in calls:
        out = c()
        try:
            held.append((getattr(c, "__name__", "getter"), out, dg(out)))
        except Exception:
            pass
    for name, obj, d0 in held:
        try:
            REC.check(monitor, dg(obj) == d0, {"getter": name, "problem": "an object returned earlier was modified by a later call"})
        except Exception as e:
            REC.crashed(monitor, e)
    if hostile_caller:
        # a caller that works in place on what it was handed (as FullGrid.get_full_prefactors does with its own matrices): scramble every
        # returned object, then ask again - the second answers are judged by the same postcondition monitors; an implementation that
        # hands out its internal cache would now return the scrambled numbers
        import numpy as np
        for name, obj, d0 in held:
            try:
                if hasattr(obj, "data") and hasattr(obj, "format"):
                    obj.data *= 7.25
                elif isinstance(obj, np.ndarray) and obj.flags.writeable and obj.dtype.kind == "f":
                    obj *= 7.25
            except Exception:
                pass
        for c in calls:
            c()
    return [h[1] for h in held]
