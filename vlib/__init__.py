import os
import sys

_deps = os.environ.get("VERIF_DEPS") or os.path.join(os.path.dirname(os.path.dirname(os.path.abspath(__file__))), ".deps")
if os.path.isdir(_deps) and _deps not in sys.path:
    sys.path.append(_deps)  # last: never shadow the packages molgri itself uses
