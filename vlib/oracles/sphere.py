"""Independent oracle for the Voronoi tessellation of points on the unit 2-sphere.  Pure numpy, never imports molgri.

For points p_1..p_N the common border of cells i and j is {x : |x|=1, x.p_i = x.p_j >= x.p_k for all k}.  On the bisector
great circle x(phi) = cos(phi) e1 + sin(phi) e2 every other point k contributes a closed half-circle of admissible angles
centred at phi_k = atan2(e2.(p_i-p_k), e1.(p_i-p_k)); the intersection of half-circles is an arc of length
max(0, largest_gap(phi) - pi).  Cell area = sum over neighbours of the solid angle of the spherical triangle
(p_i, arc start, arc end) (Van Oosterom-Strackee), long arcs split at their midpoint.
"""
import numpy as np

TWO_PI = 2 * np.pi


def _basis(d):
    a = np.zeros(3)
    a[np.argmin(np.abs(d))] = 1.0
    e1 = np.cross(d, a)
    e1 /= np.linalg.norm(e1)
    e2 = np.cross(d, e1)
    return e1, e2


def _solid_angle(a, b, c):
    num = abs(np.dot(a, np.cross(b, c)))
    den = 1.0 + np.dot(a, b) + np.dot(b, c) + np.dot(c, a)
    return 2.0 * np.arctan2(num, den)


def bisector_arc(P, i, j, tiny=1e-14):
    """-> (length, lo, hi, e1, e2): admissible arc [lo, hi] (hi - lo == length, may be <= 0) on the bisector circle of i, j"""
    d = P[i] - P[j]
    nd = np.linalg.norm(d)
    if nd < 1e-12:
        return 0.0, 0.0, 0.0, None, None
    d = d / nd
    e1, e2 = _basis(d)
    D = P[i] - P
    a = D @ e1
    b = D @ e2
    r = np.hypot(a, b)
    keep = r > tiny   # k = i, k = j and any p_k with p_i - p_k parallel to d give a constraint that is constant (=0) on the circle
    keep[i] = keep[j] = False
    phi = np.sort(np.arctan2(b[keep], a[keep]))
    n = len(phi)
    if n == 0:
        return TWO_PI, 0.0, TWO_PI, e1, e2
    gaps = np.empty(n)
    gaps[:-1] = phi[1:] - phi[:-1]
    gaps[-1] = phi[0] + TWO_PI - phi[-1]
    m = int(np.argmax(gaps))
    if m == n - 1:
        lo, hi = phi[-1] - np.pi / 2, phi[0] + np.pi / 2
    else:
        lo, hi = phi[m] + 1.5 * np.pi, phi[m + 1] + np.pi / 2
    return hi - lo, lo, hi, e1, e2


def tessellation(P, pairs=None):
    """P: (N,3) unit vectors.  Returns dict(arc (N,N) border lengths (<=0 -> 0), angle (N,N) great-circle angles, area (N,))"""
    P = np.asarray(P, dtype=float)
    N = len(P)
    arc = np.zeros((N, N))
    area = np.zeros(N)
    angle = np.arccos(np.clip(P @ P.T, -1.0, 1.0))
    it = pairs if pairs is not None else ((i, j) for i in range(N) for j in range(i + 1, N))
    for i, j in it:
        length, lo, hi, e1, e2 = bisector_arc(P, i, j)
        if length <= 0:
            continue
        arc[i, j] = arc[j, i] = length
        nseg = 1 if length < 2.0 else (2 if length < 4.0 else 4)
        cuts = np.linspace(lo, hi, nseg + 1)
        xs = [np.cos(c) * e1 + np.sin(c) * e2 for c in cuts]
        for s in range(nseg):
            area[i] += _solid_angle(P[i], xs[s], xs[s + 1])
            area[j] += _solid_angle(P[j], xs[s], xs[s + 1])
    return {"arc": arc, "angle": angle, "area": area}
