"""Independent oracle for Voronoi faces of point sets on the unit 3-sphere S^3 (unit quaternions).  numpy + scipy.optimize.linprog only.

The common face of cells i and j is a convex spherical polygon on the bisector great 2-sphere {x : x.(p_i-p_j) = 0}, cut out by the
half-spaces x.u_k >= 0 with u_k the normalised projection of (p_i - p_k) onto the bisector 3-space.  By polar duality
    area(face) = 2*pi - perimeter(spherical convex hull of {u_k}).
An interior direction c (x.u_k > 0 for all k) comes from a 4-variable LP; all u_k then lie in the open hemisphere about c, the gnomonic
projection about c maps their spherical hull to a planar hull (own monotone-chain implementation).
"""
import numpy as np
from scipy.optimize import linprog

TWO_PI = 2 * np.pi


def _hull2d(Y):
    """indices of the convex hull of 2-D points (counter-clockwise), Andrew's monotone chain, collinear points dropped"""
    n = len(Y)
    if n <= 2:
        return list(range(n))
    order = np.lexsort((Y[:, 1], Y[:, 0]))
    pts = Y[order]

    def cross(o, a, b):
        return (a[0] - o[0]) * (b[1] - o[1]) - (a[1] - o[1]) * (b[0] - o[0])

    lower = []
    for k in range(n):
        while len(lower) >= 2 and cross(pts[lower[-2]], pts[lower[-1]], pts[k]) <= 0:
            lower.pop()
        lower.append(k)
    upper = []
    for k in range(n - 1, -1, -1):
        while len(upper) >= 2 and cross(pts[upper[-2]], pts[upper[-1]], pts[k]) <= 0:
            upper.pop()
        upper.append(k)
    hull = lower[:-1] + upper[:-1]
    return [int(order[h]) for h in hull]


def bisector_frame(P, i, j):
    d = P[i] - P[j]
    nd = np.linalg.norm(d)
    if nd < 1e-12:
        return None, None
    d = d / nd
    # orthonormal basis of the 3-space orthogonal to d
    _, _, vt = np.linalg.svd(d[None, :])
    B = vt[1:]          # (3,4)
    D = P[i] - P
    U = D @ B.T         # (M,3) coordinates of the projections
    nrm = np.linalg.norm(U, axis=1)
    keep = nrm > 1e-12  # p_i - p_k parallel to d (k = i, j, ...) gives 0 >= 0 on the whole bisector
    keep[i] = keep[j] = False
    return B, U[keep] / nrm[keep, None]


def face_area(P, i, j, want_center=False):
    """area of the common Voronoi face of points i and j of P (M,4) on S^3; 0.0 if they have no 2-dimensional face"""
    B, U = bisector_frame(P, i, j)
    if B is None:
        return (0.0, None) if want_center else 0.0
    if len(U) == 0:
        return (2 * TWO_PI, None) if want_center else 2 * TWO_PI  # whole great sphere
    # LP: maximise t  s.t.  U x >= t,  -1 <= x <= 1
    m = len(U)
    A = np.hstack([-U, np.ones((m, 1))])
    res = linprog(c=[0, 0, 0, -1], A_ub=A, b_ub=np.zeros(m), bounds=[(-1, 1)] * 3 + [(None, 1)], method="highs")
    if res.status != 0 or res.x[3] <= 1e-10:
        return (0.0, None) if want_center else 0.0
    c = res.x[:3] / np.linalg.norm(res.x[:3])
    h = U @ c  # all > 0
    if np.any(h <= 0):
        return (0.0, None) if want_center else 0.0
    a = np.cross(c, [1.0, 0, 0] if abs(c[0]) < 0.9 else [0, 1.0, 0])
    a /= np.linalg.norm(a)
    b = np.cross(c, a)
    Y = np.column_stack([U @ a, U @ b]) / h[:, None]
    hull = _hull2d(Y)
    if len(hull) == 1:
        per = 0.0
    else:
        V = U[hull]
        nxt = np.roll(V, -1, axis=0)
        cr = np.linalg.norm(np.cross(V, nxt), axis=1)
        dt = np.einsum("ij,ij->i", V, nxt)
        per = float(np.sum(np.arctan2(cr, dt)))
        if len(hull) == 2:
            pass  # the roll already counts the edge twice (there and back)
    area = TWO_PI - per
    area = max(area, 0.0)
    if want_center:
        return area, B.T @ c
    return area


def mc_face_area(P, i, j, n=200000, seed=0):
    """Monte-Carlo area of the same face: fraction of uniform points of the bisector sphere that satisfy all constraints, times 4 pi"""
    B, U = bisector_frame(P, i, j)
    if B is None:
        return 0.0, 0.0
    rng = np.random.default_rng(seed)
    X = rng.normal(size=(n, 3))
    X /= np.linalg.norm(X, axis=1, keepdims=True)
    ok = np.ones(n, dtype=bool)
    for s in range(0, len(U), 64):
        ok &= np.all(X @ U[s:s + 64].T >= 0, axis=1)
    p = ok.mean()
    return 2 * TWO_PI * p, 2 * TWO_PI * np.sqrt(max(p * (1 - p), 1e-12) / n)


def double_cover_faces(G):
    """G (N,4): the N rotations (one quaternion each).  Faces on the double cover P = [G; -G], using the central symmetry:
    returns direct (N,N) = area of face(i, j), anti (N,N) = area of face(i, j+N); both symmetric."""
    G = np.asarray(G, dtype=float)
    N = len(G)
    P = np.vstack([G, -G])
    direct = np.zeros((N, N))
    anti = np.zeros((N, N))
    for i in range(N):
        for j in range(i + 1, N):
            direct[i, j] = direct[j, i] = face_area(P, i, j)
        for j in range(i, N):
            anti[i, j] = anti[j, i] = face_area(P, i, j + N)
    return direct, anti
