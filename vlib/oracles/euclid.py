"""Independent oracle for Euclidean Voronoi cells of a finite point set in R^3.  Never imports molgri.

Primary path: scipy.spatial.Voronoi on the oracle's own point set, face area by the shoelace/Newell sum over the ridge polygon,
cell volume by the cone sum over its faces.  qhull is common-mode with the repository, so `clip_face_area` recomputes a face
without qhull: the bisector plane of (i, j) clipped by every other bisector half-space (Sutherland-Hodgman in plane coordinates).
"""
import numpy as np
from scipy.spatial import Voronoi


def newell_area(poly):
    """area of a planar polygon given by ordered 3-D vertices"""
    n = np.zeros(3)
    for a, b in zip(poly, np.roll(poly, -1, axis=0)):
        n += np.cross(a, b)
    return 0.5 * np.linalg.norm(n)


def voronoi_cells(points):
    """-> dict(face {(i,j): area}, volume (M,), open (M,) bool)"""
    P = np.asarray(points, dtype=float)
    vor = Voronoi(P)
    M = len(P)
    is_open = np.array([(-1 in vor.regions[vor.point_region[i]]) or len(vor.regions[vor.point_region[i]]) == 0 for i in range(M)])
    face = {}
    vol = np.zeros(M)
    for (i, j), verts in zip(vor.ridge_points, vor.ridge_vertices):
        if -1 in verts:
            continue
        poly = vor.vertices[verts]   # qhull returns ridge vertices in order for 3-D input
        a = newell_area(poly)
        face[(int(i), int(j))] = a
        face[(int(j), int(i))] = a
        h = np.linalg.norm(P[i] - P[j]) / 2
        vol[i] += a * h / 3
        vol[j] += a * h / 3
    vol[is_open] = np.nan
    return {"face": face, "volume": vol, "open": is_open}


def clip_face_area(points, i, j, big=None):
    """area of the common face of cells i, j by clipping the bisector plane with all other bisector half-spaces (no qhull)"""
    P = np.asarray(points, dtype=float)
    if big is None:
        big = 1e3 * float(np.abs(P).max())   # the start square must dwarf the point set whatever its units
    mid = (P[i] + P[j]) / 2
    P = P - mid                    # work relative to the face: far from the origin the squared norms below would cancel
    mid = np.zeros(3)
    n = P[j] - P[i]
    dist = np.linalg.norm(n)
    n = n / dist
    a = np.cross(n, [1.0, 0, 0] if abs(n[0]) < 0.9 else [0, 1.0, 0])
    a /= np.linalg.norm(a)
    b = np.cross(n, a)
    poly = np.array([[-big, -big], [big, -big], [big, big], [-big, big]], dtype=float)
    for k in range(len(P)):
        if k == i or k == j:
            continue
        # points x of the plane closer to p_i than to p_k:  x.(p_k - p_i) <= (|p_k|^2 - |p_i|^2)/2
        w = P[k] - P[i]
        c = (P[k] @ P[k] - P[i] @ P[i]) / 2 - mid @ w
        g = np.array([a @ w, b @ w])     # constraint in plane coordinates: g.y <= c
        if np.linalg.norm(g) < 1e-14:
            if c < 0:
                return 0.0
            continue
        vals = poly @ g - c
        new = []
        m = len(poly)
        for s in range(m):
            p, q = poly[s], poly[(s + 1) % m]
            vp, vq = vals[s], vals[(s + 1) % m]
            if vp <= 0:
                new.append(p)
            if (vp < 0 < vq) or (vq < 0 < vp):
                t = vp / (vp - vq)
                new.append(p + t * (q - p))
        if len(new) < 3:
            return 0.0
        poly = np.array(new)
    x, y = poly[:, 0], poly[:, 1]
    area = 0.5 * abs(np.dot(x, np.roll(y, -1)) - np.dot(y, np.roll(x, -1)))
    if np.abs(poly).max() > big / 2:
        return np.inf  # unbounded face
    return area
