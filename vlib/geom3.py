"""Monitors on the real 3-D (direction) grid getters, shared by C03 (deciding) and C05/C02/C09/... (cross-cutting).

Attached to AbstractVoronoi.get_voronoi_adjacency / get_cell_borders / get_center_distances and
RotobjVoronoi.get_voronoi_volumes; they act only on RotobjVoronoi objects of dimension 3 (plain, not the half-sphere class).
"""
import hashlib

import numpy as np

from vlib import attach
from vlib.oracles import sphere
from vlib.rec import REC

AMBIG_LO, AMBIG_HI = 1e-10, 1e-5      # arcs with oracle length in this band are not judged
TOL = 1e-9
_CACHE = {}
SAMPLE_EVERY = 1                       # cross-cutting use may set >1 to judge only every k-th distinct grid


def oracle_for(P):
    key = hashlib.md5(np.ascontiguousarray(P).tobytes()).hexdigest()
    if key not in _CACHE:
        if len(_CACHE) > 64:
            _CACHE.clear()
        _CACHE[key] = sphere.tessellation(P)
    return _CACHE[key]


def wellformed(M, N, name):
    """shared predicate for every N x N getter: square, finite, symmetric in value, empty diagonal, strictly positive stored
    entries, no stored zeros, no duplicate coordinates.  -> (dense array, list of problems)"""
    problems = []
    c = M.tocoo()
    if c.shape != (N, N):
        return None, [f"{name}: shape {c.shape} != {(N, N)}"]
    data = np.asarray(c.data, dtype=float)
    if not np.all(np.isfinite(data)):
        problems.append(f"{name}: non-finite stored entries")
    if np.any(data <= 0):
        problems.append(f"{name}: {int(np.sum(data <= 0))} stored entries <= 0")
    if np.any(c.row == c.col):
        problems.append(f"{name}: stored diagonal entries")
    if len(set(zip(c.row.tolist(), c.col.tolist()))) != len(c.row):
        problems.append(f"{name}: duplicate coordinates")
    D = c.toarray().astype(float)
    if not np.allclose(D, D.T, rtol=1e-12, atol=0):
        problems.append(f"{name}: not symmetric")
    return D, problems


def _is_3d_rotobj(self):
    from molgri.space.voronoi import RotobjVoronoi, HalfRotobjVoronoi
    return isinstance(self, RotobjVoronoi) and not isinstance(self, HalfRotobjVoronoi) and self.get_dim() == 3


def _judge_matrix(self, result, what):
    if not _is_3d_rotobj(self):
        return True
    return judge_points(np.asarray(self.my_array, dtype=float), result, what, holder=self)


def judge_points(P, result, what, holder=None):
    """judge one matrix of a direction grid with points P (N,3), whatever class produced it"""
    mon = f"C03.{what}"
    self = holder
    try:
        N = len(P)
        if not np.allclose(np.linalg.norm(P, axis=1), 1.0, atol=1e-9):
            REC.skip(mon, "not a unit sphere")
            return True
        o = oracle_for(P)
        D, problems = wellformed(result, N, what)
        if D is not None:
            arc = o["arc"]
            must = arc > AMBIG_HI
            mustnot = arc < AMBIG_LO
            amb = ~(must | mustnot)
            namb = int(np.triu(amb, 1).sum())
            stored = D != 0
            wrong_missing = must & ~stored
            wrong_extra = mustnot & stored
            np.fill_diagonal(wrong_extra, False)
            if wrong_missing.any():
                i, j = np.argwhere(wrong_missing)[0]
                problems.append({"missing_neighbour": [int(i), int(j)], "oracle_arc": arc[i, j]})
            if wrong_extra.any():
                i, j = np.argwhere(wrong_extra)[0]
                problems.append({"extra_neighbour": [int(i), int(j)], "oracle_arc": arc[i, j], "stored": D[i, j]})
            judged = must & stored
            if what == "border_len":
                err = np.abs(D - arc)[judged]
                if err.size and err.max() > TOL:
                    i, j = np.argwhere(judged & (np.abs(D - arc) > TOL))[0]
                    problems.append({"border": [int(i), int(j)], "reported": D[i, j], "oracle_arc": arc[i, j]})
            elif what == "center_distances":
                err = np.abs(D - o["angle"])[judged]
                if err.size and err.max() > TOL:
                    i, j = np.argwhere(judged & (np.abs(D - o["angle"]) > TOL))[0]
                    problems.append({"distance": [int(i), int(j)], "reported": D[i, j], "great_circle_angle": o["angle"][i, j]})
            elif what == "adjacency":
                if not np.all(D[stored] == 1):
                    problems.append("adjacency entries other than True/1")
            if namb:
                REC.notes["C03 ambiguous arcs (1e-10..1e-5)"] += namb
            # one common pattern across the triple of one object
            pat = getattr(self, "_verif_pattern", None) if self is not None else None
            cur = hashlib.md5(np.packbits(stored).tobytes()).hexdigest()
            if pat is not None and pat != cur:
                problems.append("pattern differs from another getter of the same object")
            try:
                if self is not None:
                    self._verif_pattern = cur
            except Exception:
                pass
        if problems:
            REC.fail(mon, {"N": N, "problems": problems[:4], "points_head": P[:4]})
        else:
            REC.ok(mon)
    except Exception as e:
        REC.crashed("C03.oracle_error", e)
    return True


def adjacency_is_true_voronoi(self, result):
    return _judge_matrix(self, result, "adjacency")


def borders_are_arc_lengths(self, result):
    return _judge_matrix(self, result, "border_len")


def distances_are_great_circle_angles(self, result):
    return _judge_matrix(self, result, "center_distances")


def areas_are_cell_areas(self, approx, result):
    if not _is_3d_rotobj(self) or approx:
        return True
    return judge_areas(np.asarray(self.my_array, dtype=float), result)


def judge_areas(P, result):
    mon = "C03.areas"
    try:
        o = oracle_for(P)
        a = np.asarray(result, dtype=float)
        problems = []
        if a.shape != (len(P),):
            problems.append(f"shape {a.shape}")
        else:
            if np.any(a <= 0):
                problems.append("non-positive area")
            if abs(a.sum() - 4 * np.pi) > 1e-9:
                problems.append({"sum": a.sum(), "expected": 4 * np.pi})
            if np.abs(a - o["area"]).max() > TOL:
                i = int(np.argmax(np.abs(a - o["area"])))
                problems.append({"cell": i, "reported": a[i], "oracle": o["area"][i]})
        if problems:
            REC.fail(mon, {"N": len(P), "problems": problems, "points_head": P[:4]})
        else:
            REC.ok(mon)
    except Exception as e:
        REC.crashed("C03.oracle_error", e)
    return True


def install():
    from molgri.space import voronoi
    attach.ensure(voronoi.AbstractVoronoi, "get_voronoi_adjacency", adjacency_is_true_voronoi)
    attach.ensure(voronoi.AbstractVoronoi, "get_cell_borders", borders_are_arc_lengths)
    attach.ensure(voronoi.AbstractVoronoi, "get_center_distances", distances_are_great_circle_angles)
    attach.ensure(voronoi.RotobjVoronoi, "get_voronoi_volumes", areas_are_cell_areas)
