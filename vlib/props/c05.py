"""C05 - spherical-shell position cells tile the ball: exact volumes, faces, distances.

Monitors: postconditions on the real PositionGrid getters (default, non-Cartesian mode).  Oracle: closed formulas of the statement,
with area_o / arc(o,o') / angle(o,o') from the independent sphere oracle (vlib.oracles.sphere) and the radii re-read from the
user's text by the harness' own exact reader (vlib.props.c16.intended).
"""
import random

import numpy as np

from vlib import attach, geom3
from vlib.props import c16
from vlib.rec import REC

ID = "C05"
LEVEL = "exploration"
DECIDING = ["C05.volumes", "C05.adjacency", "C05.borders", "C05.distances"]
RULE = ("random position grids: direction algorithm in {ico, cube3D, randomS}, N in 4..60, T in 1..6 radii with unequal increments (ratios "
        "up to 50) written as list / tuple / unsorted list / linspace / range text; all four getters called in random order on each object. "
        "Non-trivial = T>=2 and N>=5; distinct by (algorithm, N, radial text)")
ASSUMPTIONS = ["lateral pairs whose oracle arc lies in [1e-10, 1e-5] are ambiguous (not judged)", "values compared at rtol 1e-10",
               "T=1 (single radius, R=2r) is driven as an extra class although the quantifier starts at T>=2"]
EXHAUSTIVE = {"quick": False, "thorough": False}
MIN_NONTRIVIAL = {"quick": 40, "thorough": 2000}
RTOL = 1e-10
ARC_ATOL = 1e-11


def expected(self):
    """-> dict(V, A (bool), S, H, amb (bool mask), n_o, T) from independent sources"""
    P = np.asarray(self.get_o_grid().get_grid_as_array(), dtype=float)
    n_o = len(P)
    text = self.t_grid.user_input
    got = c16.expected_array(text) if isinstance(text, str) else None
    if got is not None and not got[2]:
        r = np.array([float(v * 10) for v in got[0]])
    else:
        r = np.asarray(self.get_radii(), dtype=float)
    T = len(r)
    if T == 1:
        R = np.array([0.0, 2 * r[0]])
    else:
        R = np.concatenate([[0.0], (r[:-1] + r[1:]) / 2, [r[-1] + (r[-1] - r[-2]) / 2]])
    o = geom3.oracle_for(P)
    arc, ang, area = o["arc"], o["angle"], o["area"]
    n = n_o * T
    V = np.concatenate([area * (R[k + 1] ** 3 - R[k] ** 3) / 3 for k in range(T)])
    S = np.zeros((n, n))
    H = np.zeros((n, n))
    amb = np.zeros((n, n), dtype=bool)
    lat = arc > geom3.AMBIG_HI
    lat_amb = (arc >= geom3.AMBIG_LO) & ~lat
    for k in range(T):
        sl = slice(k * n_o, (k + 1) * n_o)
        S[sl, sl] = np.where(lat, arc * (R[k + 1] ** 2 - R[k] ** 2) / 2, 0.0)
        H[sl, sl] = np.where(lat, ang * r[k], 0.0)
        amb[sl, sl] = lat_amb
        if k + 1 < T:
            for oo in range(n_o):
                i, j = k * n_o + oo, (k + 1) * n_o + oo
                S[i, j] = S[j, i] = area[oo] * R[k + 1] ** 2
                H[i, j] = H[j, i] = r[k + 1] - r[k]
    return {"V": V, "A": S > 0, "S": S, "H": H, "amb": amb, "n_o": n_o, "T": T, "R": R, "r": r, "area": area}


def _cartesian(self):
    return bool(getattr(self, "position_grid_cartesian", False))


def _applicable(self, mon):
    if _cartesian(self):
        return False
    if self.get_o_grid().get_N() < 4:
        REC.skip(mon, "fewer than four directions (estimated cell model; outside C05)")
        return False
    return True


def _judge(self, result, what):
    mon = f"C05.{what}"
    try:
        if not _applicable(self, mon):
            return True
        e = expected(self)
        n = e["n_o"] * e["T"]
        D, problems = geom3.wellformed(result, n, what)
        if D is not None:
            want = {"adjacency": e["A"].astype(float), "borders": e["S"], "distances": e["H"]}[what]
            judged = ~e["amb"]
            stored = D != 0
            miss = judged & e["A"] & ~stored
            extra = judged & ~e["A"] & stored
            if miss.any():
                i, j = np.argwhere(miss)[0]
                problems.append({"missing": [int(i), int(j)], "expected": want[i, j]})
            if extra.any():
                i, j = np.argwhere(extra)[0]
                problems.append({"extra": [int(i), int(j)], "stored": D[i, j]})
            both = judged & e["A"] & stored
            atol = np.zeros_like(want)
            if what == "borders":
                # an arc is known to ARC_ATOL absolutely, not relatively: on fine direction grids (N >= 300) the end points of a short arc
                # are nearly degenerate Voronoi vertices and two correct computations differ by ~1e-13 (measured 1.4e-13 on an arc of
                # 1.2e-3 of ico_300, i.e. 1.2e-10 relative - a false alarm of the first large-grid run at rtol alone)
                for k in range(e["T"]):
                    sl = slice(k * e["n_o"], (k + 1) * e["n_o"])
                    atol[sl, sl] = ARC_ATOL * (e["R"][k + 1] ** 2 - e["R"][k] ** 2) / 2
            bad = both & (np.abs(D - want) > RTOL * np.abs(want) + atol)
            if bad.any():
                i, j = np.argwhere(bad)[0]
                problems.append({"pair": [int(i), int(j)], "reported": D[i, j], "expected": want[i, j],
                                 "kind": "radial" if abs(i - j) == e["n_o"] and i % e["n_o"] == j % e["n_o"] else "same shell"})
            if what == "borders" and not problems:
                # radial faces of shell boundary k sum to 4 pi R_k^2
                for k in range(e["T"] - 1):
                    idx = np.arange(e["n_o"])
                    s = D[k * e["n_o"] + idx, (k + 1) * e["n_o"] + idx].sum()
                    if not np.isclose(s, 4 * np.pi * e["R"][k + 1] ** 2, rtol=1e-9):
                        problems.append({"radial_faces_sum": s, "expected": 4 * np.pi * e["R"][k + 1] ** 2, "k": k})
        if problems:
            REC.fail(mon, {"n_o": e["n_o"], "radii": e["r"], "text": self.t_grid.user_input, "problems": problems[:4]})
        else:
            REC.ok(mon)
    except Exception as ex:
        REC.crashed("C05.oracle_error", ex)
    return True


def position_adjacency_is_shell_model(self, result):
    return _judge(self, result, "adjacency")


def position_borders_are_shell_faces(self, result):
    return _judge(self, result, "borders")


def position_distances_are_shell_distances(self, result):
    return _judge(self, result, "distances")


def position_volumes_are_shell_volumes(self, result):
    mon = "C05.volumes"
    try:
        if not _applicable(self, mon):
            return True
        e = expected(self)
        v = np.asarray(result, dtype=float)
        problems = []
        if v.shape != e["V"].shape:
            problems.append(f"shape {v.shape} != {e['V'].shape}")
        else:
            if np.any(v <= 0):
                problems.append("non-positive volume")
            if not np.allclose(v, e["V"], rtol=RTOL, atol=0):
                i = int(np.argmax(np.abs(v - e["V"]) / e["V"]))
                problems.append({"cell": i, "reported": v[i], "expected": e["V"][i]})
            tot = 4 / 3 * np.pi * e["R"][-1] ** 3
            if not np.isclose(v.sum(), tot, rtol=1e-9):
                problems.append({"total": v.sum(), "expected": tot})
            for k in range(e["T"]):
                sh = v[k * e["n_o"]:(k + 1) * e["n_o"]].sum()
                want = 4 / 3 * np.pi * (e["R"][k + 1] ** 3 - e["R"][k] ** 3)
                if not np.isclose(sh, want, rtol=1e-9):
                    problems.append({"shell": k, "sum": sh, "expected": want})
        if problems:
            REC.fail(mon, {"n_o": e["n_o"], "radii": e["r"], "text": self.t_grid.user_input, "problems": problems[:4]})
        else:
            REC.ok(mon)
    except Exception as ex:
        REC.crashed("C05.oracle_error", ex)
    return True


def boundaries_are_midway(my_array, include_zero, result):
    """the anchored helper itself, judged against its own argument whatever container / dtype the radii arrive in"""
    mon = "C05.between_radii"
    try:
        r = np.asarray(my_array, dtype=float)
        if r.ndim != 1 or len(r) == 0 or np.any(np.diff(r) <= 0) or r[0] <= 0:
            REC.skip(mon, "not a strictly increasing positive radial grid")
            return True
        want = np.concatenate([(r[:-1] + r[1:]) / 2, [r[-1] + (r[-1] - r[-2]) / 2]]) if len(r) > 1 else np.array([2 * r[0]])
        if include_zero:
            want = np.concatenate([[0.0], want])
        got = np.asarray(result, dtype=float)
        REC.check(mon, got.shape == want.shape and np.allclose(got, want, rtol=1e-12, atol=0),
                  lambda: {"radii": r, "container": type(my_array).__name__, "dtype": str(getattr(my_array, "dtype", "")),
                           "include_zero": bool(include_zero), "result": got, "expected": want})
    except Exception as e:
        REC.crashed("C05.oracle_error", e)
    return True


def drive_between_radii(rng):
    """direct callers of the boundary helper (PositionVoronoi.get_voronoi_radii does the same): integer radii and other containers"""
    from molgri.space import translations
    T = rng.randint(1, 7)
    ints = np.cumsum([rng.randint(1, 9) for _ in range(T)])
    form = rng.choice(["int64", "int32", "list_of_ints", "float64", "list_of_floats", "view", "float32_exact"])
    radii = {"int64": ints.astype(np.int64), "int32": ints.astype(np.int32), "list_of_ints": [int(x) for x in ints],
             "float64": ints * 0.37, "list_of_floats": [float(x) * 0.37 for x in ints], "view": np.repeat(ints * 1.5, 2)[::2],
             "float32_exact": ints.astype(np.float32)}[form]
    REC.begin_case({"between_radii": np.asarray(radii).tolist(), "form": form}, cls=[f"between_radii form={form}"])
    try:
        keep = np.array(radii, dtype=float)
        translations.get_between_radii(radii, include_zero=rng.random() < 0.5)
        translations.get_between_radii(radii)
        REC.check("C05.between_radii_input_untouched", np.array_equal(keep, np.asarray(radii, dtype=float)), {"before": keep, "after": radii})
    except Exception as e:
        REC.crashed("C05.call_raised", e)


def install():
    from molgri.space.fullgrid import PositionGrid
    from molgri.space import translations
    attach.ensure(translations, "get_between_radii", boundaries_are_midway)
    attach.ensure(PositionGrid, "get_all_position_volumes", position_volumes_are_shell_volumes)
    attach.ensure(PositionGrid, "get_adjacency_of_position_grid", position_adjacency_is_shell_model)
    attach.ensure(PositionGrid, "get_borders_of_position_grid", position_borders_are_shell_faces)
    attach.ensure(PositionGrid, "get_distances_of_position_grid", position_distances_are_shell_distances)
    return PositionGrid


# --------------------------------------------------------------------------------------- workload
def radial_text(rng):
    T = rng.choice([1, 2, 2, 3, 3, 4, 5, 6])
    form = rng.choice(["list", "tuple", "unsorted", "linspace", "range"]) if T > 1 else rng.choice(["list", "number"])
    if form in ("linspace", "range"):
        start = rng.randint(1, 30) / 10
        if form == "linspace":
            stop = start + rng.randint(1, 40) / 10
            return f"linspace({start}, {stop}, {T})", T
        step = rng.choice([0.25, 0.5, 1.5])  # dyadic: arange length unambiguous
        start = rng.choice([0.5, 1.0, 2.25])
        return f"range({start}, {start + step * T - step / 2}, {step})", T
    scale = rng.choice([1, 1, 1, 0.001, 100])  # hostile: sub-picometre and micrometre grids are legal radial grids too
    r = [rng.randint(5, 40) / 100 * scale]
    for _ in range(T - 1):
        r.append(float("%.7g" % (r[-1] + rng.choice([0.01, 0.02, 0.05, 0.1, 0.5]) * scale)))  # increment ratios up to 50
    if form == "number":
        return f"{r[0]}", 1
    if form == "unsorted":
        rng.shuffle(r)
    body = ", ".join(str(x) for x in r)
    return (f"({body}{',' if T == 1 else ''})" if form == "tuple" else f"[{body}]"), T


def drive(PositionGrid, alg, N, text, order_seed=0):
    REC.begin_case({"o": f"{alg}_{N}", "t": text, "order": order_seed}, cls=[f"alg={alg}", f"text={text.split('(')[0][:8] if '(' in text[1:] else text[:1]}"],
                   sample=(N % 10 == 2))
    try:
        if order_seed % 5 == 1 and N >= 4:
            # history: a grid of the same names in the OTHER position mode is built and evaluated first in this process, the way the
            # run_grid rule does it (nothing computed for it may be served to the default grid)
            from molgri.space.fullgrid import FullGrid
            from vlib.props.c02 import surrounds
            if surrounds(alg, N):
                REC.classes["Cartesian grid of the same names evaluated first"] += 1
                twin = FullGrid("1", f"{alg}_{N}", text, position_grid_cartesian=True)
                twin.get_total_volumes(); twin.get_full_borders(); twin.get_full_distances()
        if order_seed % 3 == 0:
            # history variant: the same position grid used through a FullGrid whose own (scaled) matrices are requested first
            from molgri.space.fullgrid import FullGrid
            fg = FullGrid("1", f"{alg}_{N}", text, factor=2)
            fg.get_full_borders(); fg.get_full_distances(); fg.get_full_adjacency(); fg.get_total_volumes()
            pg = fg.get_position_grid()
            REC.classes["via FullGrid after full getters"] += 1
        else:
            pg = PositionGrid(o_grid_name=(f"{alg}_{N}" if order_seed % 4 else f"{N}_{alg}"), t_grid_name=text)   # both spellings of the name
        calls = [pg.get_all_position_volumes, pg.get_adjacency_of_position_grid, pg.get_borders_of_position_grid,
                 pg.get_distances_of_position_grid]
        random.Random(order_seed).shuffle(calls)
        from vlib.rec import call_and_hold
        call_and_hold(calls, "C05.returned_object_stable", hostile_caller=True)
        if order_seed % 2 == 0:
            for c in calls[::-1]:  # repeated calls on the same object must still satisfy the oracle
                c()
        if pg.t_grid.get_N_trans() >= 2 and N >= 5:
            REC.nontrivial_case((alg, N, text))
    except Exception as e:
        REC.crashed("C05.call_raised", e)


def shards(tier, seed):
    n, per = (8, 25) if tier == "quick" else (16, 300)
    out = [{"rseed": seed * 1000 + i, "count": per} for i in range(n)]
    if tier == "thorough":
        out.append({"kind": "repo_tests", "modules": ["tests/test_fullgrid.py"], "rseed": 0, "count": 0})
    return out


def run_shard(spec):
    geom3.install()      # cross-cutting: the direction grid's own getters are judged too (C03 monitors)
    c16.install()        # and the radial parser (C16 monitors)
    PositionGrid = install()
    if spec.get("kind") == "repo_tests":
        from vlib import repo_tests
        from vlib.props import c02, c09, c07
        c02.install(); c09.install(); c07.install()
        return repo_tests.run(spec["modules"])
    rng = random.Random(spec["rseed"])
    for it in range(spec["count"]):
        drive_between_radii(rng)
        alg = rng.choice(["ico", "cube3D", "randomS"])
        N = rng.randint(4, 60)
        text, T = radial_text(rng)
        if it % 6 == 3:
            # many shells on a small angular grid: a shell index computed from a cell index by float arithmetic ((k/n_t)*n_t, k/n_o) is
            # wrong only for particular shell counts (22, 23, 26, 39, 43-47, 49-52 ... for one such slip): the count sweeps 7..70, also
            # through the default length of the two-argument linspace (50)
            T = rng.randint(7, 70)
            N = rng.choice([4, 5, 7])
            if rng.random() < 0.5:
                r = [rng.randint(5, 40) / 100]
                for _ in range(T - 1):
                    r.append(round(r[-1] + rng.choice([0.02, 0.05, 0.1, 0.3]), 4))
                text = "[" + ", ".join(str(x) for x in r) + "]"
            else:
                text = f"linspace(0.2, {round(0.2 + 0.05 * T, 3)}, {T})" if rng.random() < 0.7 else "linspace(0.2, 1.5)"
            REC.classes["many shells (7..70)"] += 1
        drive(PositionGrid, alg, N, text, order_seed=rng.randrange(10 ** 6))


def replay(case):
    geom3.install()
    PositionGrid = install()
    alg, N = case["o"].split("_")
    drive(PositionGrid, alg, int(N), case["t"], case.get("order", 0))
