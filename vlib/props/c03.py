"""C03 - direction-grid cells are the true Voronoi tessellation of the sphere.

Deciding monitors: vlib.geom3 (postconditions on the real adjacency / border / distance / area getters of every 3-D grid object)
against the pure-numpy bisector-arc oracle vlib.oracles.sphere.  Workload: every algorithm x a sweep over N.
"""
import numpy as np

from vlib import geom3
from vlib.rec import REC

ID = "C03"
LEVEL = "exploration"
DECIDING = ["C03.adjacency", "C03.border_len", "C03.center_distances", "C03.areas"]
RULE = ("grids (algorithm, N) for ico, cube3D, randomS; quick N in {4..40,42,43,60,92,98,99,100,162,163} + randomS_110/210 (shortest unambiguous arcs) + 6 seed-dependent N per algorithm from 44..300, thorough every N in 4..300 plus "
        "386,387,642,643 and randomS_1000/1600/2048, ico_1600, cube3D_1600; for each grid the four getters are called (adjacency twice, in different orders) and every pair (i,j) is judged. "
        "Non-trivial = N>=5 (at least one non-adjacent pair possible); distinct by (algorithm, N)")
ASSUMPTIONS = ["arcs whose oracle length lies in [1e-10, 1e-5] are ambiguous (not judged, counted); lengths/angles/areas compared at 1e-9 absolute",
               "randomS is one fixed-seed family of point sets, not all point sets"]
EXHAUSTIVE = {"quick": False, "thorough": False}
MIN_NONTRIVIAL = {"quick": 100, "thorough": 800}
SHARD_TIMEOUT = {"quick": 900, "thorough": 7200}

ALGS = ("ico", "cube3D", "randomS")
QUICK_N = list(range(4, 41)) + [42, 43, 60, 92, 98, 99, 100, 162, 163]
THOROUGH_N = list(range(4, 301)) + [386, 387, 642, 643]     # plus single grids with 1000-2048 points, see shards()


def drive(F3, alg, N, order=0):
    REC.begin_case({"alg": alg, "N": N, "order": order}, cls=[f"alg={alg}", f"N<={10 * ((N + 9) // 10)}"], sample=(N == 12))
    try:
        g = F3.create(alg_name=alg, N=N)
        sv = g.get_spherical_voronoi()
        # the exact areas are also asked for with the other falsy spellings of the flag a caller may hand over
        falsy = [False, np.False_, 0, np.int64(N) > 10 ** 6][order % 4]
        named = [("adjacency", lambda: g.get_voronoi_adjacency()), ("border_len", lambda: g.get_cell_borders()),
                 ("center_distances", lambda: g.get_center_distances()), ("areas", lambda: sv.get_voronoi_volumes()),
                 ("adjacency", lambda: g.get_voronoi_adjacency(only_upper=False, include_opposing_neighbours=False)),
                 ("center_distances", lambda: g.get_center_distances(only_upper=False, include_opposing_neighbours=False)),
                 ("areas", lambda: sv.get_voronoi_volumes(approx=falsy))]
        if order % 2:
            named = named[::-1]
        approx_first = order % 3 == 0
        if approx_first:
            # history: the approximate (hull-based) areas are requested first; the exact areas asked for afterwards must still be exact
            def approx_call():
                # only a history element: the hull-based estimate is not part of C03's statement (it fails with QhullError for cells
                # with three vertices and no helper point, N >~ 380); its own outcome is not judged
                try:
                    return sv.get_voronoi_volumes(approx=True)
                except Exception as e:
                    REC.notes[f"approximate areas raised {type(e).__name__} (not judged)"] += 1
                    return None
            named.insert(order % 4, (None, approx_call))
        from vlib.rec import call_and_hold
        before = sum(REC.monitors[m]["calls"] + REC.monitors[m]["skipped"] for m in DECIDING)
        results = call_and_hold([f for _, f in named], "C03.returned_object_stable", hostile_caller=(order % 5 == 1))
        if sum(REC.monitors[m]["calls"] + REC.monitors[m]["skipped"] for m in DECIDING) == before and N >= 4:
            # no RotobjVoronoi behind this grid: the property covers every direction grid with N >= 4, judge from the grid's own points
            REC.notes["C03 judged at the grid level (no RotobjVoronoi behind the grid)"] += 1
            P = np.asarray(g.get_grid_as_array(), dtype=float)
            holder = type("Holder", (), {})()
            for (nm, _), res in zip(named, results):
                if nm == "areas":
                    geom3.judge_areas(P, res)
                elif nm is not None:
                    geom3.judge_points(P, res, nm, holder=holder)
        if N >= 5:
            REC.nontrivial_case((alg, N))
    except Exception as e:
        REC.crashed("C03.call_raised", e)


def shards(tier, seed):
    Ns = QUICK_N if tier == "quick" else THOROUGH_N
    jobs = [(alg, N) for alg in ALGS for N in Ns]
    if tier == "quick":
        import random
        rng = random.Random(seed)
        # grids with the shortest unambiguous border arcs found by the thorough sweep (9.2e-5 and 1.7e-5 rad): a vertex-merging
        # tolerance that is too coarse removes exactly these neighbours; plus a seed-dependent sample of other N
        jobs += [("randomS", 110), ("randomS", 210)]
        jobs += [(alg, N) for alg in ALGS for N in rng.sample(range(44, 301), 6)]
        jobs = sorted(set(jobs))
    nsh = 16 if tier == "quick" else 48
    # balance by N^3; all algorithms of one N run in the SAME process, in an N-dependent order (nothing may be shared between two
    # grids of equal size)
    byN = {}
    for alg, N in jobs:
        byN.setdefault(N, []).append(alg)
    buckets = [[] for _ in range(nsh)]
    load = [0] * nsh
    for N in sorted(byN, reverse=True):
        k = load.index(min(load))
        algs = sorted(byN[N])
        algs = algs[N % len(algs):] + algs[:N % len(algs)]
        buckets[k].extend([a, N] for a in algs)
        load[k] += len(algs) * (N ** 3 + 20000)
    out = [{"jobs": b} for b in buckets if b]
    if tier == "thorough":
        # a few grids far beyond the sweep (one process each): neighbour searches that prune by distance rank or by a fixed candidate count
        # first go wrong at sizes like these (a 30-nearest-candidates shortcut is exact for every randomS N below 1535)
        out += [{"jobs": [[a, N]]} for a, N in (("randomS", 1000), ("randomS", 1600), ("randomS", 2048), ("ico", 1600), ("cube3D", 1600))]
        out.append({"kind": "repo_tests", "modules": ["tests/test_voronoi.py", "tests/test_rotobj.py", "tests/test_utils.py"], "jobs": []})
    return out


def run_shard(spec):
    from molgri.space.rotobj import SphereGrid3DFactory
    geom3.install()
    if spec.get("kind") == "repo_tests":
        from vlib import repo_tests, geom4
        from vlib.props import c07, c15
        c07.install(); c15.install(); geom4.install(max_n=13)
        return repo_tests.run(spec["modules"])
    for k, (alg, N) in enumerate(spec["jobs"]):
        drive(SphereGrid3DFactory, alg, N, order=k + spec.get("seed", 0))


def replay(case):
    from molgri.space.rotobj import SphereGrid3DFactory
    geom3.install()
    drive(SphereGrid3DFactory, case["alg"], case["N"], case.get("order", 0))
