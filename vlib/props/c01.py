"""C01 - SqRA rate matrix is the SqRA formula and a reversible generator.

Monitor: postcondition on the real SQRA.get_rate_matrix; oracle = closed-form entry formula from the object's own inputs,
pattern, row sums, detailed balance in log space.  Metamorphic relations (E -> E + c, D -> lambda D) are driven by the workload
through the same monitored function.
"""
import itertools
import random

import numpy as np
from scipy.constants import k as kB, N_A
from scipy.sparse import coo_array, issparse

from vlib import attach
from vlib.rec import REC, digest

ID = "C01"
LEVEL = "exploration"
DECIDING = ["C01.rate_matrix"]
RULE = ("random SqRA systems: n in 2..12, symmetric Erdos-Renyi pattern (p in [0,0.7], forced isolated rows, disconnected blocks), "
        "S,h,V log-uniform over 4 decades, energies N(0,sigma) with sigma in {0.1,10,300,2000} kJ/mol (pairs beyond the 500 kJ/mol cap "
        "occur), T in [50,1000] K, D over 4 decades, both storage forms (canonical csr / row-major coo); thorough adds all 64 "
        "symmetric patterns for n=4 in both forms. Each system is called 3 times (base, energies shifted, D scaled), half of them also repeatedly on one SQRA object with other D, T in between. Non-trivial = "
        ">=1 off-diagonal entry and >=1 adjacent pair with E_i != E_j; distinct by digest of the generated system")
ASSUMPTIONS = ["S and h share one sparsity pattern and stored order (calls where they do not are skipped, counted)",
               "capped exponent kept <= 600 by T >= 50 K so exp() never overflows (outside the documented cap's guarantee)",
               "the code rounds energy differences to 1e-14 kJ/mol: entries compared at rtol 1e-9"]
EXHAUSTIVE = {"quick": False, "thorough": False}
MIN_NONTRIVIAL = {"quick": 500, "thorough": 5000}
R_GAS = kB * N_A
CAP = 5e2


def _coo_parts(m):
    c = m.tocoo()
    return np.asarray(c.row), np.asarray(c.col), np.asarray(c.data, dtype=float)


def _digest_inputs(self):
    r1, c1, d1 = _coo_parts(self.surfaces)
    r2, c2, d2 = _coo_parts(self.distances)
    return digest([r1.tolist(), c1.tolist(), d1.tolist(), r2.tolist(), c2.tolist(), d2.tolist(),
                   np.asarray(self.energies, dtype=float).tolist(), np.asarray(self.volumes, dtype=float).tolist()])


def rate_matrix_is_sqra_formula(self, D, T, result, OLD):
    mon = "C01.rate_matrix"
    try:
        E = np.asarray(self.energies, dtype=float)
        V = np.asarray(self.volumes, dtype=float)
        n = len(V)
        rs, cs, S = _coo_parts(self.surfaces)
        rh, ch, H = _coo_parts(self.distances)
        if len(S) != len(H) or not (np.array_equal(rs, rh) and np.array_equal(cs, ch)):
            REC.skip(mon, "S and h do not share pattern/order (outside the property)")
            return True
        if np.any(rs == cs) or len(set(zip(rs.tolist(), cs.tolist()))) != len(rs):
            REC.skip(mon, "diagonal or duplicate entries in the inputs (outside the property)")
            return True
        problems = []
        if not issparse(result) or result.format != "csr":
            problems.append(f"result is not csr: {type(result).__name__}")
        Q = np.asarray(result.todense(), dtype=float) if issparse(result) else np.asarray(result, dtype=float)
        if Q.shape != (n, n):
            REC.fail(mon, {"problems": [f"shape {Q.shape} != {(n, n)}"]})
            return True
        dE = E[rs] - E[cs]
        expo = np.minimum(dE, CAP) * 1000.0 / (2.0 * R_GAS * T)
        expected = np.zeros((n, n))
        expected[rs, cs] = D * S / (H * V[rs]) * np.exp(expo)
        off = ~np.eye(n, dtype=bool)
        if not np.all(np.isfinite(Q)):
            problems.append("non-finite entries")
        elif not np.allclose(Q[off], expected[off], rtol=1e-9, atol=1e-300):
            i, j = np.unravel_index(np.argmax(np.abs(Q - expected) * off / (np.abs(expected) + 1e-300)), Q.shape)
            problems.append({"entry": [int(i), int(j)], "observed": Q[i, j], "formula": expected[i, j],
                             "E_i-E_j": E[i] - E[j], "in_pattern": bool(expected[i, j] != 0)})
        else:
            # diagonal = - sum of off-diagonals; rows sum to zero
            offsum = (expected * off).sum(axis=1)
            scale = np.abs(expected * off).sum(axis=1)
            if not np.allclose(np.diag(Q), -offsum, rtol=1e-9, atol=0):
                problems.append({"diagonal": np.diag(Q), "minus_offdiag_sum": -offsum})
            rsum = Q.sum(axis=1)
            if np.any(np.abs(rsum) > 1e-9 * scale + 1e-300):
                problems.append({"row_sums": rsum, "scale": scale})
            # detailed balance in log space for pairs below the cap (both directions below the cap)
            below = np.abs(dE) < CAP
            if np.any(below):
                i, j = rs[below], cs[below]
                with np.errstate(divide="ignore"):
                    lhs = np.log(V[i]) - E[i] * 1000 / (R_GAS * T) + np.log(Q[i, j])
                    rhs = np.log(V[j]) - E[j] * 1000 / (R_GAS * T) + np.log(Q[j, i])
                bad = ~np.isclose(lhs, rhs, rtol=0, atol=1e-8 * (1 + np.abs(lhs)))
                # Q[j,i] must exist: the pattern is symmetric by the property's precondition
                sym = set(zip(rs.tolist(), cs.tolist()))
                if all((b, a) in sym for a, b in sym):
                    if np.any(bad):
                        k = int(np.argmax(bad))
                        problems.append({"detailed_balance_pair": [int(i[k]), int(j[k])], "lhs": lhs[k], "rhs": rhs[k]})
                else:
                    REC.notes["pattern not symmetric: detailed balance not judged"] += 1
        if OLD.inputs != _digest_inputs(self):
            problems.append("get_rate_matrix modified its inputs (energies/volumes/surfaces/distances)")
        if problems:
            REC.fail(mon, {"problems": problems, "D": D, "T": T, "n": n, "energies": E, "volumes": V,
                           "rows": rs, "cols": cs, "S": S, "h": H, "form": getattr(self.surfaces, "format", "?")})
        else:
            REC.ok(mon)
        rate_matrix_is_sqra_formula.last = Q
    except Exception as e:
        REC.crashed("C01.oracle_error", e)
    return True


def install():
    from molgri.molecules.transitions import SQRA
    attach.ensure(SQRA, "get_rate_matrix", rate_matrix_is_sqra_formula, snapshots=[("inputs", _digest_inputs)])
    return SQRA


# --------------------------------------------------------------------------------------- workload
def make_system(rng, nprng, n, pattern=None):
    if pattern is None:
        p = rng.choice([0.0, 0.1, 0.3, 0.5, 0.7])
        up = np.triu(nprng.random((n, n)) < p, 1)
        style = rng.choice(["er", "isolated_row", "two_blocks", "er"])
        if style == "isolated_row" and n > 2:
            r = rng.randrange(n)
            up[r, :] = False
            up[:, r] = False
        elif style == "two_blocks" and n > 3:
            cut = rng.randrange(1, n - 1)
            up[:cut, cut:] = False
        pattern = up | up.T
    rows, cols = np.nonzero(pattern)  # row-major order
    logu = lambda size: 10 ** nprng.uniform(-2, 2, size=size)
    S = logu((n, n)); S = np.sqrt(S * S.T)
    H = logu((n, n)); H = np.sqrt(H * H.T)
    V = logu(n)
    sigma = rng.choice([0.1, 10.0, 300.0, 2000.0])
    E = nprng.normal(0, sigma, size=n)
    if rng.random() < 0.15:
        E[rng.randrange(n)] = E[rng.randrange(n)]  # exactly equal energies
    T = float(rng.choice([50, 100, 273, 300, 310.5, 1000])) if rng.random() < 0.5 else float(nprng.uniform(50, 1000))
    D = float(10 ** nprng.uniform(-2, 2))
    return dict(n=n, rows=rows, cols=cols, S=S[rows, cols], H=H[rows, cols], V=V, E=E, T=T, D=D, sigma=sigma)


def build(SQRA, sysd, form):
    n = sysd["n"]
    s = coo_array((sysd["S"].copy(), (sysd["rows"].copy(), sysd["cols"].copy())), shape=(n, n))
    h = coo_array((sysd["H"].copy(), (sysd["rows"].copy(), sysd["cols"].copy())), shape=(n, n))
    if form == "csr":
        s, h = s.tocsr(), h.tocsr()
    return s, h


def drive(SQRA, sysd, form, cls=None, sample=False):
    case = {k: sysd[k] for k in ("n", "rows", "cols", "S", "H", "V", "E", "T", "D")}
    case["form"] = form
    REC.begin_case(case, cls=[f"form={form}", f"n={sysd['n']}", f"sigma={sysd['sigma']}"] + (cls or []), sample=sample)
    n = sysd["n"]
    try:
        s, h = build(SQRA, sysd, form)
        E, V, T, D = sysd["E"], sysd["V"], sysd["T"], sysd["D"]
        obj = SQRA(energies=E.copy(), volumes=V.copy(), distances=h, surfaces=s)
        Q = obj.get_rate_matrix(D, T)
        Qd = np.asarray(Q.todense())
        if sysd["n"] % 2 == 0:
            # history: the SAME object (same loaded matrices) is asked again with other parameters and then with the first ones
            obj.get_rate_matrix(2.5 * D, 1.25 * T)   # never colder than T: the capped exponent must stay below the overflow limit
            Qr = np.asarray(obj.get_rate_matrix(D, T).todense())
            REC.check("C01.repeatable_on_one_object", np.array_equal(Qr, Qd), {"n": sysd["n"], "form": form})
        dE = E[sysd["rows"]] - E[sysd["cols"]]
        if len(sysd["rows"]) > 0 and np.any(dE != 0):
            REC.nontrivial_case()
        if np.any(np.abs(dE) >= CAP):
            REC.classes["has pair beyond cap"] += 1
        # metamorphic 1: constant shift of all energies (pairs within 1e-6 of the cap excluded: the capped branch may flip)
        c = float(np.random.default_rng(n).normal(0, 1000))
        s2, h2 = build(SQRA, sysd, form)
        Q2 = np.asarray(SQRA(energies=E + c, volumes=V.copy(), distances=h2, surfaces=s2).get_rate_matrix(D, T).todense())
        if not np.any(np.abs(np.abs(dE) - CAP) < 1e-6):
            REC.check("C01.shift_invariance", np.allclose(Q2, Qd, rtol=1e-7, atol=1e-290),
                      lambda: {"shift": c, "max_rel": float(np.max(np.abs(Q2 - Qd) / (np.abs(Qd) + 1e-300)))})
        # metamorphic 2: linear in D
        lam = 3.7
        s3, h3 = build(SQRA, sysd, form)
        Q3 = np.asarray(SQRA(energies=E.copy(), volumes=V.copy(), distances=h3, surfaces=s3).get_rate_matrix(lam * D, T).todense())
        REC.check("C01.linear_in_D", np.allclose(Q3, lam * Qd, rtol=1e-12, atol=1e-290), {"lambda": lam})
    except Exception as e:
        REC.crashed("C01.call_raised", e)


def run_random(SQRA, spec):
    rng = random.Random(spec["rseed"])
    nprng = np.random.default_rng(spec["rseed"])
    for it in range(spec["count"]):
        n = rng.randint(2, 12)
        sysd = make_system(rng, nprng, n)
        for form in ("csr", "coo"):
            drive(SQRA, sysd, form, sample=(it == 3 and form == "csr"))


def run_patterns(SQRA, spec):
    rng = random.Random(spec["rseed"])
    nprng = np.random.default_rng(spec["rseed"])
    n = 4
    pairs = list(itertools.combinations(range(n), 2))
    for mask in range(2 ** len(pairs)):
        pat = np.zeros((n, n), dtype=bool)
        for b, (i, j) in enumerate(pairs):
            if mask >> b & 1:
                pat[i, j] = pat[j, i] = True
        for rep in range(spec["reps"]):
            sysd = make_system(rng, nprng, n, pattern=pat)
            for form in ("csr", "coo"):
                drive(SQRA, sysd, form, cls=["all-patterns-n4"])


def shards(tier, seed):
    if tier == "quick":
        return [{"kind": "random", "rseed": seed * 1000 + i, "count": 125} for i in range(8)] + \
               [{"kind": "patterns", "rseed": seed * 1000 + 900, "reps": 1}]
    return [{"kind": "random", "rseed": seed * 1000 + i, "count": 5000} for i in range(16)] + \
           [{"kind": "patterns", "rseed": seed * 1000 + 900 + i, "reps": 4} for i in range(4)]


def run_shard(spec):
    SQRA = install()
    (run_random if spec["kind"] == "random" else run_patterns)(SQRA, spec)


def replay(case):
    SQRA = install()
    sysd = {k: (np.array(case[k]) if isinstance(case[k], list) else case[k]) for k in ("n", "rows", "cols", "S", "H", "V", "E", "T", "D")}
    sysd["rows"] = sysd["rows"].astype(int)
    sysd["cols"] = sysd["cols"].astype(int)
    sysd["sigma"] = 0
    drive(SQRA, sysd, case["form"])
