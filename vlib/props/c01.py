"""C01 - SqRA rate matrix is the SqRA formula and a reversible generator.

Monitor: postcondition on the real SQRA.get_rate_matrix; oracle = closed-form entry formula from the object's own inputs,
pattern, row sums, detailed balance in log space.  Metamorphic relations (E -> E + c, D -> lambda D) are driven by the workload
through the same monitored function.
"""
import itertools
import random

import numpy as np
from scipy.constants import k as kB, N_A
from scipy.sparse import coo_array, issparse

from vlib import attach
from vlib.rec import REC, digest

ID = "C01"
LEVEL = "exploration"
DECIDING = ["C01.rate_matrix"]
RULE = ("random SqRA systems: n in 2..12, symmetric Erdos-Renyi pattern (p in [0,0.7], forced isolated rows, disconnected blocks), "
        "S,h,V log-uniform over 4 decades, energies N(0,sigma) with sigma in {0.1,10,300,2000} kJ/mol (pairs beyond the 500 kJ/mol cap "
        "occur), T in [50,1000] K, D over 4 decades, both storage forms (canonical csr / row-major coo); thorough adds all 64 "
        "symmetric patterns for n=4 in both forms; volumes also as float32 / int64 / int32 arrays, energies as float32 / int64; rings and periodic lattices with 500..65536 (thorough 262144) cells whose number of stored pairs is a power of two or of ten (judged without dense matrices). Each system is called 3 times (base, energies shifted, D scaled), half of them also repeatedly on one SQRA object with other D, T in between. Non-trivial = "
        ">=1 off-diagonal entry and >=1 adjacent pair with E_i != E_j; distinct by digest of the generated system")
ASSUMPTIONS = ["S and h share one sparsity pattern and stored order (calls where they do not are skipped, counted)",
               "capped exponent kept <= 600 by T >= 50 K so exp() never overflows (outside the documented cap's guarantee)",
               "the code rounds energy differences to 1e-14 kJ/mol: entries compared at rtol 1e-9"]
EXHAUSTIVE = {"quick": False, "thorough": False}
MIN_NONTRIVIAL = {"quick": 500, "thorough": 5000}
R_GAS = kB * N_A
CAP = 5e2


def _coo_parts(m):
    c = m.tocoo()
    return np.asarray(c.row), np.asarray(c.col), np.asarray(c.data, dtype=float)


def _digest_inputs(self):
    r1, c1, d1 = _coo_parts(self.surfaces)
    r2, c2, d2 = _coo_parts(self.distances)
    return digest([r1.tolist(), c1.tolist(), d1.tolist(), r2.tolist(), c2.tolist(), d2.tolist(),
                   np.asarray(self.energies, dtype=float).tolist(), np.asarray(self.volumes, dtype=float).tolist()])


def rate_matrix_is_sqra_formula(self, D, T, result, OLD):
    mon = "C01.rate_matrix"
    try:
        E = np.asarray(self.energies, dtype=float)
        V = np.asarray(self.volumes, dtype=float)
        n = len(V)
        rs, cs, S = _coo_parts(self.surfaces)
        rh, ch, H = _coo_parts(self.distances)
        if len(S) != len(H) or not (np.array_equal(rs, rh) and np.array_equal(cs, ch)):
            REC.skip(mon, "S and h do not share pattern/order (outside the property)")
            return True
        if np.any(rs == cs) or len(set(zip(rs.tolist(), cs.tolist()))) != len(rs):
            REC.skip(mon, "diagonal or duplicate entries in the inputs (outside the property)")
            return True
        if n > DENSE_LIMIT and issparse(result):
            return _judge_sparse(self, D, T, result, OLD, E, V, rs, cs, S, H)
        problems = []
        if not issparse(result) or result.format != "csr":
            problems.append(f"result is not csr: {type(result).__name__}")
        Q = np.asarray(result.todense(), dtype=float) if issparse(result) else np.asarray(result, dtype=float)
        if Q.shape != (n, n):
            REC.fail(mon, {"problems": [f"shape {Q.shape} != {(n, n)}"]})
            return True
        dE = E[rs] - E[cs]
        expo = np.minimum(dE, CAP) * 1000.0 / (2.0 * R_GAS * T)
        expected = np.zeros((n, n))
        expected[rs, cs] = D * S / (H * V[rs]) * np.exp(expo)
        off = ~np.eye(n, dtype=bool)
        if not np.all(np.isfinite(Q)):
            problems.append("non-finite entries")
        elif not np.allclose(Q[off], expected[off], rtol=1e-9, atol=1e-300):
            i, j = np.unravel_index(np.argmax(np.abs(Q - expected) * off / (np.abs(expected) + 1e-300)), Q.shape)
            problems.append({"entry": [int(i), int(j)], "observed": Q[i, j], "formula": expected[i, j],
                             "E_i-E_j": E[i] - E[j], "in_pattern": bool(expected[i, j] != 0)})
        else:
            # diagonal = - sum of off-diagonals; rows sum to zero
            offsum = (expected * off).sum(axis=1)
            scale = np.abs(expected * off).sum(axis=1)
            if not np.allclose(np.diag(Q), -offsum, rtol=1e-9, atol=0):
                problems.append({"diagonal": np.diag(Q), "minus_offdiag_sum": -offsum})
            rsum = Q.sum(axis=1)
            if np.any(np.abs(rsum) > 1e-9 * scale + 1e-300):
                problems.append({"row_sums": rsum, "scale": scale})
            # detailed balance in log space for pairs below the cap (both directions below the cap)
            below = np.abs(dE) < CAP
            if np.any(below):
                i, j = rs[below], cs[below]
                with np.errstate(divide="ignore"):
                    lhs = np.log(V[i]) - E[i] * 1000 / (R_GAS * T) + np.log(Q[i, j])
                    rhs = np.log(V[j]) - E[j] * 1000 / (R_GAS * T) + np.log(Q[j, i])
                bad = ~np.isclose(lhs, rhs, rtol=0, atol=1e-8 * (1 + np.abs(lhs)))
                # Q[j,i] must exist: the pattern is symmetric by the property's precondition
                sym = set(zip(rs.tolist(), cs.tolist()))
                if all((b, a) in sym for a, b in sym):
                    if np.any(bad):
                        k = int(np.argmax(bad))
                        problems.append({"detailed_balance_pair": [int(i[k]), int(j[k])], "lhs": lhs[k], "rhs": rhs[k]})
                else:
                    REC.notes["pattern not symmetric: detailed balance not judged"] += 1
        if OLD.inputs != _digest_inputs(self):
            problems.append("get_rate_matrix modified its inputs (energies/volumes/surfaces/distances)")
        if problems:
            REC.fail(mon, {"problems": problems, "D": D, "T": T, "n": n, "energies": E, "volumes": V,
                           "rows": rs, "cols": cs, "S": S, "h": H, "form": getattr(self.surfaces, "format", "?")})
        else:
            REC.ok(mon)
        rate_matrix_is_sqra_formula.last = Q
    except Exception as e:
        REC.crashed("C01.oracle_error", e)
    return True


DENSE_LIMIT = 400


def _judge_sparse(self, D, T, result, OLD, E, V, rs, cs, S, H):
    """the same clauses without dense n x n arrays (rings and lattices with 1e3..2e5 cells)"""
    from scipy.sparse import csr_array
    mon = "C01.rate_matrix"
    n = len(V)
    problems = []
    if result.format != "csr":
        problems.append(f"result is not csr: {result.format}")
    if result.shape != (n, n):
        REC.fail(mon, {"problems": [f"shape {result.shape} != {(n, n)}"]})
        return True
    dE = E[rs] - E[cs]
    val = D * S / (H * V[rs]) * np.exp(np.minimum(dE, CAP) * 1000.0 / (2.0 * R_GAS * T))
    Eoff = csr_array((val, (rs, cs)), shape=(n, n))
    R = csr_array(result, dtype=float)
    diag = R.diagonal()
    Roff = R.tocoo()
    keep = Roff.row != Roff.col
    Roff = csr_array((Roff.data[keep], (Roff.row[keep], Roff.col[keep])), shape=(n, n))
    if not np.all(np.isfinite(R.data)):
        problems.append("non-finite entries")
    else:
        excess = (abs(Roff - Eoff) - 1e-9 * abs(Eoff)).tocoo()
        if excess.nnz and excess.data.max() > 1e-300:
            k = int(np.argmax(excess.data))
            i, j = int(excess.row[k]), int(excess.col[k])
            problems.append({"entry": [i, j], "observed": float(Roff[[i], [j]][0]), "formula": float(Eoff[[i], [j]][0]), "E_i-E_j": E[i] - E[j]})
        else:
            offsum = np.asarray(Eoff.sum(axis=1)).ravel()
            if not np.allclose(diag, -offsum, rtol=1e-9, atol=0):
                k = int(np.argmax(np.abs(diag + offsum)))
                problems.append({"diagonal_row": k, "observed": diag[k], "minus_offdiag_sum": -offsum[k]})
            rsum = np.asarray(R.sum(axis=1)).ravel()
            if np.any(np.abs(rsum) > 1e-9 * offsum + 1e-300):
                problems.append({"row_sum_row": int(np.argmax(np.abs(rsum))), "row_sum": float(np.abs(rsum).max())})
            below = np.abs(dE) < CAP
            sym = csr_array((np.ones(len(rs)), (rs, cs)), shape=(n, n))
            if np.any(below) and (sym - sym.T).nnz == 0:
                i, j = rs[below], cs[below]
                qij = np.asarray(Roff[i, j]).ravel()
                qji = np.asarray(Roff[j, i]).ravel()
                with np.errstate(divide="ignore"):
                    lhs = np.log(V[i]) - E[i] * 1000 / (R_GAS * T) + np.log(qij)
                    rhs = np.log(V[j]) - E[j] * 1000 / (R_GAS * T) + np.log(qji)
                bad = ~np.isclose(lhs, rhs, rtol=0, atol=1e-8 * (1 + np.abs(lhs)))
                if np.any(bad):
                    k = int(np.argmax(bad))
                    problems.append({"detailed_balance_pair": [int(i[k]), int(j[k])], "lhs": lhs[k], "rhs": rhs[k]})
    if OLD.inputs != _digest_inputs(self):
        problems.append("get_rate_matrix modified its inputs (energies/volumes/surfaces/distances)")
    if problems:
        REC.fail(mon, {"problems": problems, "D": D, "T": T, "n": n, "nnz_inputs": len(rs), "form": getattr(self.surfaces, "format", "?")})
    else:
        REC.ok(mon)
    rate_matrix_is_sqra_formula.last = None
    return True


def install():
    from molgri.molecules.transitions import SQRA
    attach.ensure(SQRA, "get_rate_matrix", rate_matrix_is_sqra_formula, snapshots=[("inputs", _digest_inputs)])
    return SQRA


# --------------------------------------------------------------------------------------- workload
def make_system(rng, nprng, n, pattern=None):
    if pattern is None:
        p = rng.choice([0.0, 0.1, 0.3, 0.5, 0.7])
        up = np.triu(nprng.random((n, n)) < p, 1)
        style = rng.choice(["er", "isolated_row", "two_blocks", "er"])
        if style == "isolated_row" and n > 2:
            r = rng.randrange(n)
            up[r, :] = False
            up[:, r] = False
        elif style == "two_blocks" and n > 3:
            cut = rng.randrange(1, n - 1)
            up[:cut, cut:] = False
        pattern = up | up.T
    rows, cols = np.nonzero(pattern)  # row-major order
    logu = lambda size: 10 ** nprng.uniform(-2, 2, size=size)
    S = logu((n, n)); S = np.sqrt(S * S.T)
    H = logu((n, n)); H = np.sqrt(H * H.T)
    V = logu(n)
    sigma = rng.choice([0.1, 10.0, 300.0, 2000.0])
    E = nprng.normal(0, sigma, size=n)
    if rng.random() < 0.15:
        E[rng.randrange(n)] = E[rng.randrange(n)]  # exactly equal energies
    T = float(rng.choice([50, 100, 273, 300, 310.5, 1000])) if rng.random() < 0.5 else float(nprng.uniform(50, 1000))
    D = float(10 ** nprng.uniform(-2, 2))
    # the per-cell arrays in the dtypes files and other tools deliver them in: float32 (single-precision volumes), integers
    vform = rng.choice(["float64", "float64", "float32", "int64", "int32"])
    if vform.startswith("int"):
        V = nprng.integers(1, 60, size=n)
    V = V.astype(vform)
    eform = rng.choice(["float64", "float64", "float32", "int64"])
    E = (np.round(E) if eform == "int64" else E).astype(eform)
    return dict(n=n, rows=rows, cols=cols, S=S[rows, cols], H=H[rows, cols], V=V, E=E, T=T, D=D, sigma=sigma, vform=vform, eform=eform)


def make_large_system(rng, nprng, shape):
    """rings and periodic lattices whose number of stored pairs is a round number (powers of two and of ten): block-wise or chunked
    implementations change behaviour exactly there"""
    if shape[0] == "ring":
        n = shape[1]
        i = np.arange(n)
        rows, cols = np.concatenate([i, i]), np.concatenate([(i + 1) % n, (i - 1) % n])
    else:
        dims = shape[1:]
        n = int(np.prod(dims))
        idx = np.arange(n).reshape(dims)
        rows, cols = [], []
        for ax in range(len(dims)):
            for sh in (1, -1):
                rows.append(idx.ravel())
                cols.append(np.roll(idx, sh, axis=ax).ravel())
        rows, cols = np.concatenate(rows), np.concatenate(cols)
    order = np.lexsort((cols, rows))
    rows, cols = rows[order], cols[order]
    lo, hi = np.minimum(rows, cols), np.maximum(rows, cols)
    pair_rng = np.random.default_rng(rng.randrange(10 ** 9))
    table = 10 ** pair_rng.uniform(-1, 1, size=(2, 4099))
    S = table[0][(lo * 31 + hi * 17) % 4099]          # symmetric by construction
    H = table[1][(lo * 13 + hi * 29) % 4099]
    V = 10 ** nprng.uniform(-1, 1, size=n)
    E = nprng.normal(0, rng.choice([1.0, 30.0]), size=n)
    return dict(n=n, rows=rows, cols=cols, S=S, H=H, V=V, E=E, T=float(rng.choice([200, 300, 310.5])), D=float(10 ** nprng.uniform(-1, 1)),
                sigma=0, vform="float64", eform="float64")


LARGE = [("ring", 500), ("ring", 512), ("ring", 2048), ("ring", 5000), ("ring", 8192), ("ring", 32768), ("ring", 50000), ("ring", 65536),
         ("lattice", 64, 64), ("lattice", 100, 100), ("lattice", 32, 32, 32), ("lattice", 16, 16, 16), ("ring", 8193), ("lattice", 63, 65)]


def run_large(SQRA, spec):
    rng = random.Random(spec["rseed"])
    nprng = np.random.default_rng(spec["rseed"])
    for shape in spec["shapes"]:
        sysd = make_large_system(rng, nprng, tuple(shape))
        for form in ("csr", "coo"):
            REC.begin_case({"large": list(shape), "rseed": spec["rseed"], "form": form, "nnz": int(len(sysd["rows"]))}, cls=["round number of stored pairs", f"form={form}"])
            try:
                s_, h_ = build(SQRA, sysd, form)
                SQRA(energies=sysd["E"].copy(), volumes=sysd["V"].copy(), distances=h_, surfaces=s_).get_rate_matrix(sysd["D"], sysd["T"])
                REC.nontrivial_case()
            except Exception as e:
                REC.crashed("C01.call_raised", e)


def build(SQRA, sysd, form):
    n = sysd["n"]
    s = coo_array((sysd["S"].copy(), (sysd["rows"].copy(), sysd["cols"].copy())), shape=(n, n))
    h = coo_array((sysd["H"].copy(), (sysd["rows"].copy(), sysd["cols"].copy())), shape=(n, n))
    if form == "csr":
        s, h = s.tocsr(), h.tocsr()
    return s, h


def drive(SQRA, sysd, form, cls=None, sample=False):
    case = {k: sysd[k] for k in ("n", "rows", "cols", "S", "H", "V", "E", "T", "D")}
    case["form"] = form
    case["vform"], case["eform"] = sysd.get("vform", "float64"), sysd.get("eform", "float64")
    REC.begin_case(case, cls=[f"form={form}", f"n={sysd['n']}", f"sigma={sysd['sigma']}", f"volumes={case['vform']}", f"energies={case['eform']}"] + (cls or []), sample=sample)
    n = sysd["n"]
    try:
        s, h = build(SQRA, sysd, form)
        E, V, T, D = sysd["E"], sysd["V"], sysd["T"], sysd["D"]
        obj = SQRA(energies=E.copy(), volumes=V.copy(), distances=h, surfaces=s)
        Q = obj.get_rate_matrix(D, T)
        Qd = np.asarray(Q.todense())
        if sysd["n"] % 2 == 0:
            # history: the SAME object (same loaded matrices) is asked again with other parameters and then with the first ones
            obj.get_rate_matrix(2.5 * D, 1.25 * T)   # never colder than T: the capped exponent must stay below the overflow limit
            Qr = np.asarray(obj.get_rate_matrix(D, T).todense())
            REC.check("C01.repeatable_on_one_object", np.array_equal(Qr, Qd), {"n": sysd["n"], "form": form})
            # history: a second SQRA object built on the SAME surface and distance matrix objects but with other volumes (one geometry file,
            # two volume files), asked right after the first; then the first object's volumes are replaced and it is asked again -
            # every answer is judged by the monitor against the object's own current arrays
            V2 = np.asarray(V, dtype=float) * np.random.default_rng(n + 5).uniform(0.5, 2.0, size=len(V))
            SQRA(energies=E.copy(), volumes=V2, distances=h, surfaces=s).get_rate_matrix(D, T)
            obj.volumes = V2[::-1].copy()
            obj.get_rate_matrix(D, T)
            obj.volumes = V.copy()
        dE = E[sysd["rows"]] - E[sysd["cols"]]
        if len(sysd["rows"]) > 0 and np.any(dE != 0):
            REC.nontrivial_case()
        if np.any(np.abs(dE) >= CAP):
            REC.classes["has pair beyond cap"] += 1
        # metamorphic 1: constant shift of all energies (pairs within 1e-6 of the cap excluded: the capped branch may flip)
        c = float(np.random.default_rng(n).normal(0, 1000))
        if n % 3 == 0:
            c = [-4.0e5, 1.0e6, 2.5e4][n // 3 % 3]     # total (QM-style) energies: the common offset dwarfs every difference
        s2, h2 = build(SQRA, sysd, form)
        Q2 = np.asarray(SQRA(energies=np.asarray(E, dtype=float) + c, volumes=V.copy(), distances=h2, surfaces=s2).get_rate_matrix(D, T).todense())
        if not np.any(np.abs(np.abs(dE) - CAP) < 1e-6):
            REC.check("C01.shift_invariance", np.allclose(Q2, Qd, rtol=1e-7, atol=1e-290),
                      lambda: {"shift": c, "max_rel": float(np.max(np.abs(Q2 - Qd) / (np.abs(Qd) + 1e-300)))})
        # metamorphic 2: linear in D
        lam = 3.7
        s3, h3 = build(SQRA, sysd, form)
        Q3 = np.asarray(SQRA(energies=E.copy(), volumes=V.copy(), distances=h3, surfaces=s3).get_rate_matrix(lam * D, T).todense())
        REC.check("C01.linear_in_D", np.allclose(Q3, lam * Qd, rtol=1e-12, atol=1e-290), {"lambda": lam})
    except Exception as e:
        REC.crashed("C01.call_raised", e)


def run_random(SQRA, spec):
    rng = random.Random(spec["rseed"])
    nprng = np.random.default_rng(spec["rseed"])
    for it in range(spec["count"]):
        n = rng.randint(2, 12)
        sysd = make_system(rng, nprng, n)
        for form in ("csr", "coo"):
            drive(SQRA, sysd, form, sample=(it == 3 and form == "csr"))


def run_patterns(SQRA, spec):
    rng = random.Random(spec["rseed"])
    nprng = np.random.default_rng(spec["rseed"])
    n = 4
    pairs = list(itertools.combinations(range(n), 2))
    for mask in range(2 ** len(pairs)):
        pat = np.zeros((n, n), dtype=bool)
        for b, (i, j) in enumerate(pairs):
            if mask >> b & 1:
                pat[i, j] = pat[j, i] = True
        for rep in range(spec["reps"]):
            sysd = make_system(rng, nprng, n, pattern=pat)
            for form in ("csr", "coo"):
                drive(SQRA, sysd, form, cls=["all-patterns-n4"])


def shards(tier, seed):
    if tier == "quick":
        return [{"kind": "random", "rseed": seed * 1000 + i, "count": 125} for i in range(8)] + \
               [{"kind": "patterns", "rseed": seed * 1000 + 900, "reps": 1}] + \
               [{"kind": "large", "rseed": seed * 1000 + 950 + i, "shapes": LARGE[i::4]} for i in range(4)]
    return [{"kind": "random", "rseed": seed * 1000 + i, "count": 5000} for i in range(16)] + \
           [{"kind": "patterns", "rseed": seed * 1000 + 900 + i, "reps": 4} for i in range(4)] + \
           [{"kind": "large", "rseed": seed * 1000 + 950 + i, "shapes": (LARGE + [("ring", 131072), ("ring", 100000), ("lattice", 256, 256)])[i::8]} for i in range(8)]


def run_shard(spec):
    SQRA = install()
    {"random": run_random, "patterns": run_patterns, "large": run_large}[spec["kind"]](SQRA, spec)


def replay(case):
    SQRA = install()
    if "large" in case:
        return run_large(SQRA, {"rseed": case["rseed"], "shapes": [case["large"]]})   # (re-runs the shapes of that shard up to this one)
    sysd = {k: (np.array(case[k]) if isinstance(case[k], list) else case[k]) for k in ("n", "rows", "cols", "S", "H", "V", "E", "T", "D")}
    sysd["rows"] = sysd["rows"].astype(int)
    sysd["cols"] = sysd["cols"].astype(int)
    sysd["sigma"] = 0
    sysd["V"] = sysd["V"].astype(case.get("vform", "float64"))
    sysd["E"] = sysd["E"].astype(case.get("eform", "float64"))
    sysd["vform"], sysd["eform"] = case.get("vform", "float64"), case.get("eform", "float64")
    drive(SQRA, sysd, case["form"])
