"""C17 - grid names normalise to one valid (algorithm, N) or are rejected with ValueError.

Outcome monitor on the real GridNameParser.__init__ (both roles): a relational specification over the token language decides,
for every call, whether the outcome (standard name or exception class) is allowed.  Factories are monitored for the number of points.
"""
import itertools
import re

from vlib import attach
from vlib.rec import REC

ID = "C17"
LEVEL = "exploration"
DECIDING = ["C17.name_outcome"]
RULE = ("all underscore-joined sequences of <=3 (quick) / <=4 (thorough) tokens from the 22-token alphabet {6 algorithm names, zero3D, "
        "zero4D, zero, 0, 1, 2, 5, 12, 007, -3, none, None, foo, '', Ico, x1}, both roles; every valid outcome is re-parsed and (N<=12) "
        "built through the factory. Non-trivial = name with at least one number token or algorithm token; distinct by (name, role)")
ASSUMPTIONS = ["names carrying a dimension tag (3d/4d) are not generated (left unspecified by the property)",
               "algorithm tokens are exactly the eight names in molgri.constants.ALL_GRID_ALGORITHMS; the substring 'zero' selects the zero grid"]
EXHAUSTIVE = {"quick": True, "thorough": True}
MIN_NONTRIVIAL = {"quick": 5000, "thorough": 100000}

ALG3 = ("randomS", "cube3D", "ico")
ALG4 = ("randomQ", "cube4D", "fulldiv")
ZERO = {"o": "zero3D", "b": "zero4D"}
DEFAULT = {"o": "ico", "b": "cube4D"}
ALL_ALGS = ALG3 + ALG4 + ("zero3D", "zero4D")
FILLER = ["none", "None", "foo", "x1", "Ico", "junk"]     # fragments that are neither a number nor an algorithm name
TOKENS = list(ALG3 + ALG4) + ["zero3D", "zero4D", "zero", "0", "1", "2", "5", "12", "007", "-3", "none", "None", "foo", "", "Ico", "x1"]


def judge(name, role, outcome, exc):
    """-> list of problems (empty = allowed).  outcome = (alg, N, standard_name) or None"""
    tokens = name.split("_")
    nums = [int(t) for t in tokens if re.fullmatch(r"\d+", t)]
    algs = [t for t in tokens if t in ALL_ALGS]
    role_algs = ALG3 if role == "o" else ALG4
    problems = []
    if exc is not None:
        if not isinstance(exc, ValueError):
            return [f"raised {type(exc).__name__}: {exc} (only ValueError is a deliberate rejection)"]
        # rejections that are NOT allowed: canonical well-formed names
        if len(tokens) == 1 and len(nums) == 1 and nums[0] >= 1:
            problems.append("a bare positive number must be accepted")
        if len(tokens) == 2 and len(nums) == 1 and len(algs) == 1 and algs[0] in role_algs and nums[0] >= 1 and "zero" not in name:
            problems.append("canonical <algorithm>_<N> / <N>_<algorithm> name of this role must be accepted")
        if len(nums) == 0 and len(algs) == 1 and algs[0] == ZERO[role] and len(tokens) == 1:
            problems.append("the role's own zero name must be accepted")
        return problems
    alg, N, std = outcome
    if len(nums) > 1:
        problems.append("two numbers in the name must be rejected")
    if len(algs) > 1:
        problems.append("two algorithm tokens in the name must be rejected")
    if not isinstance(N, int) or isinstance(N, bool) or N < 1:
        problems.append(f"N={N!r} is not an integer >= 1")
    if alg not in role_algs and alg != ZERO[role]:
        problems.append(f"algorithm {alg!r} is not valid for role {role}")
    if (N == 1) != (alg == ZERO[role]):
        problems.append(f"N=1 <=> zero algorithm violated: ({alg}, {N})")
    if std != f"{alg}_{N}":
        problems.append(f"standard name {std!r} != '{alg}_{N}'")
    if nums and N != nums[0]:
        problems.append(f"N={N} differs from the name's number {nums[0]}")
    if not nums and "zero" not in name:
        problems.append("no number and no zero name: must be rejected")
    if len(tokens) == 1 and len(nums) == 1 and nums[0] > 1 and alg != DEFAULT[role]:
        problems.append(f"bare number >1 must select the default algorithm {DEFAULT[role]}")
    if len(algs) == 1 and algs[0] in role_algs and isinstance(N, int) and N > 1 and alg != algs[0]:
        problems.append(f"algorithm token {algs[0]} valid for the role was replaced by {alg}")
    return problems


_in_reparse = False


def name_outcome_observer(arguments, result, exc):
    global _in_reparse
    mon = "C17.name_outcome"
    try:
        self = arguments.get("self")
        name = arguments.get("name_string")
        role = arguments.get("o_or_b", "o")
        if not isinstance(name, str):
            REC.skip(mon, "non-string name")
            return
        if re.search(r"(^|_)\dd($|_)", name):
            REC.skip(mon, "dimension tag (unspecified)")
            return
        role = "o" if role == "o" else "b"
        outcome = None
        if exc is None:
            outcome = (self.get_alg(), self.get_N(), self.get_standard_grid_name())
        problems = judge(name, role, outcome, exc)
        if problems:
            REC.fail(mon, {"name": name, "role": role, "outcome": outcome, "exception": repr(exc) if exc else None,
                           "problems": problems},
                     mechanism="none_compared_with_int" if isinstance(exc, TypeError) and "NoneType" in str(exc) else None,
                     case={"name": name, "role": role})
        else:
            REC.ok(mon)
    except Exception as e:
        REC.crashed("C17.oracle_error", e)


def factory_returns_N_points(alg_name, N, result):
    try:
        arr = result.get_grid_as_array(only_upper=True) if result.dimensions == 4 else result.get_grid_as_array()
        REC.check("C17.factory_N_points", len(arr) == N and result.get_N() == N,
                  {"alg": alg_name, "N": N, "rows": len(arr)})
    except Exception as e:
        REC.crashed("C17.oracle_error", e)
    return True


def install():
    from molgri.naming import GridNameParser
    from molgri.space.rotobj import SphereGrid3DFactory, SphereGrid4DFactory
    attach.outcome(GridNameParser, "__init__", name_outcome_observer)
    attach.ensure(SphereGrid3DFactory, "create", factory_returns_N_points)
    attach.ensure(SphereGrid4DFactory, "create", factory_returns_N_points)
    return GridNameParser, SphereGrid3DFactory, SphereGrid4DFactory


_built = {}


def drive(GNP, F3, F4, name, role, build=True):
    REC.begin_case({"name": name, "role": role}, cls=[f"role={role}", f"tokens={name.count('_') + 1}"],
                   sample=(name in ("ico_12", "5", "zero_1_foo", "cube4D_fulldiv_8")))
    tokens = name.split("_")
    if any(re.fullmatch(r"\d+", t) for t in tokens) or any(t in ALL_ALGS for t in tokens):
        REC.nontrivial_case((name, role))
    try:
        p = GNP(name, role)
    except Exception:
        return  # judged by the outcome monitor
    std = p.get_standard_grid_name()
    try:
        p2 = GNP(std, role)
        REC.check("C17.reparse_identity", p2.get_standard_grid_name() == std, {"name": name, "standard": std,
                                                                                "reparsed": p2.get_standard_grid_name()})
    except Exception as e:
        REC.fail("C17.reparse_identity", {"name": name, "standard": std, "exception": repr(e)})
    if build and isinstance(p.get_N(), int) and 1 <= p.get_N() <= 12:
        key = (role, p.get_alg(), p.get_N())
        if key not in _built:
            _built[key] = True
            try:
                (F3 if role == "o" else F4).create(alg_name=p.get_alg(), N=p.get_N())
            except ValueError:
                if p.get_alg() == "fulldiv" and p.get_N() not in (8, 40, 272, 2080):
                    REC.ok("C17.factory_documented_rejection")
                else:
                    REC.fail("C17.factory_N_points", {"alg": p.get_alg(), "N": p.get_N(), "problem": "ValueError for a supported size"})
            except Exception as e:
                REC.crashed("C17.factory_raised", e)


def shards(tier, seed):
    L = 3 if tier == "quick" else 4
    nsh = 4 if tier == "quick" else 16
    longer = 4000 if tier == "quick" else 20000
    return ([{"L": L, "nshards": nsh, "shard": i, "longer": longer, "rseed": seed * 100 + i} for i in range(nsh)]
            + [{"kind": "repo_tests", "modules": ["tests/test_parsers.py"]}])


def run_shard(spec):
    GNP, F3, F4 = install()
    if spec.get("kind") == "repo_tests":
        from vlib import repo_tests
        from vlib.props import c16
        c16.install()
        return repo_tests.run(spec["modules"])
    idx = 0
    for L in range(1, spec["L"] + 1):
        for toks in itertools.product(TOKENS, repeat=L):
            idx += 1
            if idx % spec["nshards"] != spec["shard"]:
                continue
            name = "_".join(toks)
            for role in ("o", "b"):
                drive(GNP, F3, F4, name, role)
    # beyond the exhaustive length: sampled names of L+1 .. L+4 tokens (a parser that looks only at the first fragments is exact below)
    import random
    rng = random.Random(spec.get("rseed", 0))
    for _ in range(spec.get("longer", 0)):
        toks = [rng.choice(TOKENS) for _ in range(rng.randint(spec["L"] + 1, spec["L"] + 4))]
        if rng.random() < 0.5:
            # mostly filler, so that names with exactly one number / one algorithm (accepted ones) are frequent among the long names
            keep = set(rng.sample(range(len(toks)), rng.randint(1, 2)))
            toks = [t if k in keep else rng.choice(FILLER) for k, t in enumerate(toks)]
        name = "_".join(toks)
        for role in ("o", "b"):
            drive(GNP, F3, F4, name, role)


def replay(case):
    GNP, F3, F4 = install()
    drive(GNP, F3, F4, case["name"], case["role"])
