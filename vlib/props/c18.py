"""C18 - polytope subdivision produces exactly the lattice points of the solid's surface.

Invariant at a hook: after every __init__ and divide_edges of the three real polytope classes (snapshot of the index map taken
before the call) the node set must equal the ideal lattice built independently, projections are node/|node|, the set is closed under
negation, permanent indices are 0..n-1, level-monotone and unchanged.  Postconditions on get_nodes and get_half_of_hypercube.
"""
import itertools
import random

import numpy as np

from vlib import attach
from vlib.rec import REC

ID = "C18"
LEVEL = "exploration"
DECIDING = ["C18.lattice_invariant", "C18.get_nodes", "C18.half_hypercube"]
RULE = ("complete chains of subdivisions: icosahedron and cube to level 4 (2562 / 1538 nodes), hypercube to level 2 (544 nodes); the invariant "
        "is evaluated after construction and after every divide_edges (index permanence against the snapshot taken before the call); between "
        "subdivisions get_nodes(N, projection) and get_half_of_hypercube(N, projection) are called with many N (quick: a fixed spread, thorough: "
        "random interleavings incl. repeated calls that populate the sorted-node cache); some chains query only after selected levels (query -> divide -> divide -> query). A case = (polytope, level, getter history); "
        "non-trivial = level >= 1; distinct by (polytope, level, history digest)")
ASSUMPTIONS = ["set equality by nearest-neighbour bijection at 1e-9", "hypercube level 3 (4160 nodes, tens of minutes of edge search) is beyond the "
               "property's own bound and not run"]
EXHAUSTIVE = {"quick": True, "thorough": True}
MIN_NONTRIVIAL = {"quick": 8, "thorough": 8}
SHARD_TIMEOUT = {"quick": 1200, "thorough": 7200}

GOLDEN = (1 + 5 ** 0.5) / 2


# --------------------------------------------------------------------------------------- ideal lattices
def cube_lattice(d, k):
    s = 2 * np.sqrt(1 / d)
    n = 2 ** k
    coords = -s / 2 + s * np.arange(n + 1) / n
    pts = np.array(list(itertools.product(coords, repeat=d)))
    on_boundary = np.any(np.isclose(np.abs(pts), s / 2, atol=1e-12), axis=1)
    return pts[on_boundary]


def ico_lattice(k):
    side = 1 / np.sin(2 * np.pi / 5)
    V = []
    for a, b in itertools.product((-1, 1), (-GOLDEN, GOLDEN)):
        V += [(a, b, 0), (0, a, b), (b, 0, a)]
    V = np.array(V, dtype=float) * side / 2
    assert len(V) == 12
    D = np.linalg.norm(V[:, None] - V[None], axis=2)
    edge = D[D > 1e-9].min()
    faces = [(a, b, c) for a, b, c in itertools.combinations(range(12), 3)
             if abs(D[a, b] - edge) < 1e-9 and abs(D[b, c] - edge) < 1e-9 and abs(D[a, c] - edge) < 1e-9]
    assert len(faces) == 20
    n = 2 ** k
    pts = []
    for a, b, c in faces:
        for i in range(n + 1):
            for j in range(n + 1 - i):
                l = n - i - j
                pts.append((i * V[a] + j * V[b] + l * V[c]) / n)
    pts = np.array(pts)
    key = np.round(pts, 9)
    _, idx = np.unique(key, axis=0, return_index=True)
    return pts[np.sort(idx)]


_IDEAL = {}


def ideal(kind, k):
    if (kind, k) not in _IDEAL:
        _IDEAL[(kind, k)] = ico_lattice(k) if kind == "ico" else cube_lattice(3 if kind == "cube3D" else 4, k)
    return _IDEAL[(kind, k)]


EXPECTED_COUNT = {"ico": [12, 42, 162, 642, 2562], "cube3D": [8, 26, 98, 386, 1538], "cube4D": [16, 80, 544, 4160]}


def same_point_set(A, B, tol=1e-9):
    if len(A) != len(B):
        return False
    from scipy.spatial import cKDTree
    d, idx = cKDTree(B).query(A)
    return bool(np.all(d < tol) and len(set(idx.tolist())) == len(A))


def kind_of(self):
    return {"IcosahedronPolytope": "ico", "Cube3DPolytope": "cube3D", "Cube4DPolytope": "cube4D"}.get(type(self).__name__)


# --------------------------------------------------------------------------------------- invariant hook
def index_map(self):
    try:
        return {n: d.get("central_index") for n, d in self.G.nodes(data=True)}
    except Exception:
        return {}


def lattice_invariant(self, OLD=None):
    mon = "C18.lattice_invariant"
    try:
        kind = kind_of(self)
        if kind is None:
            return True
        G = self.G
        nodes = list(G.nodes())
        n = len(nodes)
        problems = []
        if n not in EXPECTED_COUNT[kind]:
            problems.append(f"{n} nodes is not a complete level of {kind} {EXPECTED_COUNT[kind]}")
        else:
            k = EXPECTED_COUNT[kind].index(n)
            if self.current_level != k + 1:
                problems.append(f"current_level {self.current_level} but node count is level {k}")
            arr = np.array(nodes, dtype=float)
            if not same_point_set(arr, ideal(kind, k)):
                problems.append(f"node set differs from the ideal level-{k} lattice")
            proj = np.array([G.nodes[nd]["projection"] for nd in nodes], dtype=float)
            if not np.allclose(proj, arr / np.linalg.norm(arr, axis=1, keepdims=True), rtol=0, atol=1e-12):
                problems.append("projection != node / |node|")
            if not same_point_set(arr, -arr):
                problems.append("node set not closed under negation")
            ci = [G.nodes[nd].get("central_index") for nd in nodes]
            if sorted(x for x in ci if x is not None) != list(range(n)) or any(x is None for x in ci):
                problems.append("central indices are not exactly 0..n-1")
            else:
                lv = np.array([G.nodes[nd]["level"] for nd in nodes])[np.argsort(ci)]
                if np.any(np.diff(lv) < 0):
                    problems.append("indices not level-monotone")
                counts = [int(np.sum(lv == l)) for l in range(k + 1)]
                want = [EXPECTED_COUNT[kind][0]] + [EXPECTED_COUNT[kind][l] - EXPECTED_COUNT[kind][l - 1] for l in range(1, k + 1)]
                if counts != want:
                    problems.append({"nodes_per_level": counts, "expected": want})
                if self.current_max_ci != n:
                    problems.append(f"current_max_ci {self.current_max_ci} != {n}")
            if OLD is not None:
                old = OLD.ci
                moved = [nd for nd, i in old.items() if nd not in G.nodes or G.nodes[nd].get("central_index") != i]
                if moved:
                    problems.append({"indices_changed_for": len(moved), "example": [list(moved[0]), old[moved[0]]]})
                if old and n <= len(old):
                    problems.append("divide_edges did not add nodes")
        if problems:
            REC.fail(mon, {"polytope": kind, "nodes": n, "problems": problems})
        else:
            REC.ok(mon)
    except Exception as e:
        REC.crashed("C18.oracle_error", e)
    return True


def after_init(self):
    return lattice_invariant(self)


def after_divide(self, OLD):
    return lattice_invariant(self, OLD)


def nodes_are_sorted_by_permanent_index(self, N, projection, result):
    mon = "C18.get_nodes"
    try:
        if kind_of(self) is None:
            return True
        G = self.G
        order = sorted(G.nodes(), key=lambda nd: G.nodes[nd]["central_index"])
        want = np.array([G.nodes[nd]["projection"] if projection else nd for nd in order], dtype=float)
        if N is not None:
            want = want[:N]
        res = np.asarray(result, dtype=float)
        REC.check(mon, res.shape == want.shape and np.array_equal(res, want),
                  lambda: {"polytope": kind_of(self), "N": N, "projection": projection, "result_shape": res.shape, "expected_shape": want.shape})
    except Exception as e:
        REC.crashed("C18.oracle_error", e)
    return True


def canonical(q):
    for x in q:
        if abs(x) > 1e-9:
            return x > 0
    return False


def half_is_one_of_each_antipodal_pair(self, projection, N, result):
    mon = "C18.half_hypercube"
    try:
        G = self.G
        order = sorted(G.nodes(), key=lambda nd: G.nodes[nd]["central_index"])
        sel = [nd for nd in order if canonical(nd)]
        problems = []
        if 2 * len(sel) != len(order):
            problems.append("canonical half is not half of the nodes (harness assumption)")
        want = np.array([G.nodes[nd]["projection"] if projection else nd for nd in sel], dtype=float)
        if N is not None:
            want = want[:N]
        res = np.asarray(result, dtype=float)
        if res.shape != want.shape or not np.array_equal(res, want):
            problems.append({"result_shape": res.shape, "expected_shape": want.shape,
                             "first_difference": int(np.argmax(np.any(res != want, axis=1))) if res.shape == want.shape else None})
        elif N is None:
            both = np.vstack([res, -res])
            allp = np.array([G.nodes[nd]["projection"] if projection else nd for nd in order], dtype=float)
            if not same_point_set(both, allp):
                problems.append("half and its negatives do not reproduce the full node set")
        if problems:
            REC.fail(mon, {"N": N, "projection": projection, "nodes": len(order), "problems": problems})
        else:
            REC.ok(mon)
    except Exception as e:
        REC.crashed("C18.oracle_error", e)
    return True


def install():
    from molgri.space import polytopes as pt
    for cls in (pt.IcosahedronPolytope, pt.Cube3DPolytope, pt.Cube4DPolytope):
        attach.ensure(cls, "__init__", after_init)
        attach.ensure(cls, "divide_edges", after_divide, snapshots=[("ci", index_map)])
    attach.ensure(pt.Polytope, "get_nodes", nodes_are_sorted_by_permanent_index)
    attach.ensure(pt.Cube4DPolytope, "get_half_of_hypercube", half_is_one_of_each_antipodal_pair)
    return pt


# --------------------------------------------------------------------------------------- workload
def getter_history(p, kind, rng, n_calls):
    n = p.G.number_of_nodes()
    hist = []
    for _ in range(n_calls):
        N = rng.choice([None, 1, 2, n // 3 + 1, n - 1, n, rng.randint(1, n)])
        # the flag in the spellings a caller may hand over (bool, numpy bool, 0/1, result of a numpy comparison)
        proj = rng.choice([True, np.True_, 1, np.float64(2.0) > 1] if rng.random() < 0.5 else [False, np.False_, 0])
        if kind == "cube4D" and rng.random() < 0.5:
            if N is not None:
                N = min(N, n // 2)
            p.get_half_of_hypercube(projection=proj, N=N)
            hist.append(["half", N, repr(proj)])
        else:
            p.get_nodes(N=N, projection=proj)
            hist.append(["nodes", N, repr(proj)])
    return hist


def run_chain(pt, kind, top, rng, n_calls, query_levels=None):
    """query_levels: the levels after which getters are called (None = every level); skipping levels gives histories like
    query -> divide -> divide -> query, which a cache that is only extended level by level does not survive"""
    cls = {"ico": pt.IcosahedronPolytope, "cube3D": pt.Cube3DPolytope, "cube4D": pt.Cube4DPolytope}[kind]
    REC.begin_case({"polytope": kind, "level": 0, "query_levels": query_levels}, cls=f"{kind} level 0")
    try:
        p = cls()
        hist = getter_history(p, kind, rng, n_calls) if query_levels is None or 0 in query_levels else []
        for level in range(1, top + 1):
            REC.begin_case({"polytope": kind, "level": level, "getter_history_before": hist, "query_levels": query_levels},
                           cls=f"{kind} level {level}", sample=(level == 1))
            p.divide_edges()
            if query_levels is None or level in query_levels:
                hist = hist + getter_history(p, kind, rng, n_calls)
            REC.nontrivial_case((kind, level, hist, query_levels))
    except Exception as e:
        REC.crashed("C18.call_raised", e)


def run_interleaved(pt, rng, n_ops):
    """several polytope objects alive in one process, getters and subdivisions interleaved at random (nothing may be shared between objects)"""
    objs = []
    for kind in ("ico", "cube3D", "cube4D", "cube3D", "ico"):
        cls = {"ico": pt.IcosahedronPolytope, "cube3D": pt.Cube3DPolytope, "cube4D": pt.Cube4DPolytope}[kind]
        REC.begin_case({"polytope": kind, "level": 0, "history": "interleaved objects"}, cls="interleaved objects")
        objs.append([kind, cls(), 0])
    hist = []
    # the cells of a hypercube are polyhedra of their own (8 nodes at +-0.5, what the plotting code reads): they are read first, and
    # every polytope built afterwards must be unaffected
    try:
        for cell in pt.Cube4DPolytope().get_all_cells()[:3]:
            cell.get_nodes()
            cell.get_nodes(N=4)
    except Exception as e:
        REC.notes[f"hypercube cells could not be read ({type(e).__name__}; not judged)"] += 1
    for step in range(n_ops):
        if step % 15 == 7:
            # hostile caller + fresh object: the arrays a THROW-AWAY polytope handed out are scaled in place (the pinned tree hands out its
            # sorted-node cache, so that object itself is not asked again - what a caller does to one object's answers is outside the
            # statement), then a NEW polytope of the same class is brought to the same level and asked, and the live objects too
            kind, p, level = objs[rng.randrange(len(objs))]
            REC.begin_case({"polytope": kind, "level": level, "history": "fresh object after a caller scaled another object's returned nodes"},
                           cls="interleaved objects")
            try:
                scratch = type(p)()
                for _ in range(level):
                    scratch.divide_edges()
                for proj in (True, False):     # the un-projected answer last: on the pinned tree it IS the object's cache
                    arr = scratch.get_nodes(projection=proj)
                    if isinstance(arr, np.ndarray) and arr.flags.writeable:
                        arr *= 1.7
                del scratch
                fresh = type(p)()
                for _ in range(level):
                    fresh.divide_edges()
                getter_history(fresh, kind, rng, 3)
                getter_history(p, kind, rng, 2)
            except Exception as e:
                REC.crashed("C18.call_raised", e)
                return
        k = rng.randrange(len(objs))
        kind, p, level = objs[k]
        REC.begin_case({"polytope": kind, "level": level, "history": "interleaved objects", "ops_so_far": hist[-12:]}, cls="interleaved objects")
        try:
            if rng.random() < 0.2 and level < (2 if kind != "cube4D" else 1):
                p.divide_edges()
                objs[k][2] += 1
                hist.append([k, "divide"])
            else:
                hist.append([k] + getter_history(p, kind, rng, 1)[0])
        except Exception as e:
            REC.crashed("C18.call_raised", e)
            return
    REC.nontrivial_case(("interleaved", hist))


def shards(tier, seed):
    out = [{"kind": "ico", "top": 4}, {"kind": "cube3D", "top": 4}, {"kind": "cube4D", "top": 2},
           {"kind": "ico", "top": 3}, {"kind": "cube3D", "top": 3}, {"kind": "cube4D", "top": 1}]
    out += [{"kind": "ico", "top": 3, "query_levels": [0, 2]}, {"kind": "ico", "top": 3, "query_levels": [1, 3]},
            {"kind": "cube3D", "top": 3, "query_levels": [0, 2, 3]}, {"kind": "cube3D", "top": 2, "query_levels": [2]},
            {"kind": "cube4D", "top": 2, "query_levels": [0, 2]}, {"kind": "cube4D", "top": 2, "query_levels": [2]}]
    out += [{"kind": "interleaved", "top": 0, "ops": 60 if tier == "quick" else 400} for _ in range(2 if tier == "quick" else 6)]
    for i, s in enumerate(out):
        s["rseed"] = seed * 100 + i
        s["calls"] = 8 if tier == "quick" else 60
    if tier == "thorough":
        extra = []
        for r in range(6):
            for kind, top in (("ico", 3), ("cube3D", 3), ("cube4D", 2)):
                extra.append({"kind": kind, "top": top, "rseed": seed * 100 + 50 + len(extra), "calls": 25})
        out += extra
        out.append({"kind": "repo_tests", "modules": ["tests/test_polytopes.py"], "rseed": 0, "calls": 0, "top": 0})
    return out


def run_shard(spec):
    pt = install()
    if spec["kind"] == "repo_tests":
        from vlib import repo_tests
        from vlib.props import c07
        c07.install()
        return repo_tests.run(spec["modules"])
    if spec["kind"] == "interleaved":
        return run_interleaved(pt, random.Random(spec["rseed"]), spec["ops"])
    run_chain(pt, spec["kind"], spec["top"], random.Random(spec["rseed"]), spec["calls"], spec.get("query_levels"))


def replay(case):
    pt = install()
    run_chain(pt, case["polytope"], case["level"], random.Random(0), 8, case.get("query_levels"))
