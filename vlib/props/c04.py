"""C04 - rotation-grid neighbour relations are correct on SO(3) = S^3 modulo sign.

Deciding monitors: vlib.geom4 (outcome monitors on the default folded getters of every 4-D grid object) against the polar-duality face
oracle on the double cover.  Workload: cube4D and randomQ over a sweep of N.
"""
import os

import numpy as np

from vlib import geom4
from vlib.rec import REC

ID = "C04"
LEVEL = "exploration"
DECIDING = ["C04.adjacency", "C04.border_len", "C04.center_distances"]
RULE = ("grids (algorithm, N) for cube4D and randomQ; quick N in {4..16,20,24,40,41} (+ randomQ_84), thorough every N in 4..100 plus 130; the three default "
        "getters are called (in varying order) and every pair (i,j) is judged against all faces of the 2N-point double cover (exact all-pairs "
        "oracle). Non-trivial = grid with at least one pair adjacent only through the antipodal copy; distinct by (algorithm, N)")
ASSUMPTIONS = ["faces with oracle area in [1e-13, 1e-8] are ambiguous (not judged); two-face contacts: border not judged (unspecified)",
               "border tolerance 2e-8 + 1e-6*area (observed agreement <= 7e-9 on every grid of the thorough sweep), distances 1e-9, symmetry 1e-8 (absolute and relative; mirror faces are computed separately and differ by ~3e-10)",
               "oracle validated per run against Monte-Carlo on sampled faces (oracle self-test counters in the evidence)"]
EXHAUSTIVE = {"quick": False, "thorough": False}
MIN_NONTRIVIAL = {"quick": 20, "thorough": 150}
SHARD_TIMEOUT = {"quick": 1500, "thorough": 10800}

QUICK_N = list(range(4, 17)) + [20, 24, 40, 41]
THOROUGH_N = list(range(4, 101)) + [130]


def drive(F4, alg, N, order=0, selftest=False):
    REC.begin_case({"alg": alg, "N": N, "order": order}, cls=[f"alg={alg}", f"N<={10 * ((N + 9) // 10)}"], sample=(N == 8))
    try:
        g = F4.create(alg_name=alg, N=N)
        if order % 4 == 1:
            # history: the very first matrix request on this object fails (unknown property name, the way the package's own callers reach
            # the routine); nothing of the aborted pass may survive into the answers that follow
            try:
                g.get_spherical_voronoi()._calculate_N_N_array(sel_property="no such property")
            except Exception:
                REC.classes["first matrix request on the object failed"] += 1
        calls = [g.get_voronoi_adjacency, g.get_cell_borders, g.get_center_distances]
        calls = calls[order % 3:] + calls[:order % 3]
        from vlib.rec import call_and_hold
        before = sum(REC.monitors[m]["calls"] + REC.monitors[m]["skipped"] for m in DECIDING)
        results = call_and_hold(calls, "C04.returned_object_stable", hostile_caller=(order % 2 == 0))
        G = np.asarray(g.get_grid_as_array(only_upper=True), dtype=float)
        if sum(REC.monitors[m]["calls"] + REC.monitors[m]["skipped"] for m in DECIDING) == before and N >= 4:
            # the class-level monitors did not fire (the grid is served by another cell model): the property speaks about every rotation
            # grid with N >= 4, so its matrices are judged here from the grid's own double cover
            REC.notes["C04 judged at the grid level (no HalfRotobjVoronoi behind the grid)"] += 1
            P = np.asarray(g.get_grid_as_array(only_upper=False), dtype=float)
            names = ["adjacency", "border_len", "center_distances"]
            names = names[order % 3:] + names[:order % 3]
            holder = type("Holder", (), {})()
            for nm, res in zip(names, results):
                geom4.judge_points(P, res, nm, holder=holder)
        direct, anti = geom4.oracle_for(G)
        off = ~np.eye(N, dtype=bool)
        if ((anti > geom4.AMBIG_HI) & ~(direct > geom4.AMBIG_HI) & off).any():
            REC.nontrivial_case((alg, N))
        if selftest:
            oracle_selftest(G, direct, anti, N)
    except Exception as e:
        mech = "cosine_law_rounding_negative_area" if isinstance(e, AssertionError) and "Area cannot be negative" in str(e) else None
        REC.crashed("C04.call_raised", e, mechanism=mech)


def oracle_selftest(G, direct, anti, N):
    """the oracle against Monte-Carlo on a few faces of this grid (harness self-test; failure => inconclusive, not a violation)"""
    from vlib.oracles import hypersphere
    P = np.vstack([G, -G])
    rng = np.random.default_rng(N)
    pairs = [(i, j) for i in range(N) for j in range(N) if i < j and direct[i, j] > 1e-3][:200]
    pairs += [(i, j + N) for i in range(N) for j in range(N) if i <= j and anti[i, j] > 1e-3][:200]
    if not pairs:
        return
    for k in rng.choice(len(pairs), size=min(3, len(pairs)), replace=False):
        i, j = pairs[k]
        a = hypersphere.face_area(P, i, j)
        m, se = hypersphere.mc_face_area(P, i, j, n=200000, seed=int(k))
        if abs(a - m) <= 5 * se + 1e-3:
            REC.ok("C04.oracle_selftest_mc")
        else:
            REC.harness_problem("C04 oracle disagrees with Monte-Carlo", {"pair": [int(i), int(j)], "oracle": a, "mc": m, "se": se})


def drive_consumers(F4):
    """history: a single-position full grid hands the rotation matrices to the package's own in-place consumer (get_full_prefactors);
    afterwards the rotation grid's getters are asked again under the monitors"""
    from molgri.space.fullgrid import FullGrid
    for b in ("randomQ_8", "cube4D_9"):
        REC.begin_case({"kind": "matrices after their consumers", "b": b}, cls="matrices after their consumers")
        try:
            fg = FullGrid(b, "1", "[0.3]", factor=2)
            fg.get_full_prefactors()
            fg.get_full_borders()
            fg.get_full_prefactors()
            g = fg.b_rotations
            g.get_cell_borders(); g.get_center_distances(); g.get_voronoi_adjacency()
            REC.nontrivial_case(("consumers", b))
        except Exception as e:
            REC.crashed("C04.call_raised", e)


def drive_foreign_pickle(F4):
    """history across processes: another interpreter builds a rotation grid's cell object and pickles it; this process first builds and uses
    grids of its own, then loads the foreign object and asks it under the same monitors (identity tokens do not survive serialisation)"""
    import pickle
    import subprocess
    import sys
    import tempfile
    for alg, N, own in (("randomQ", 12, ("cube4D", 10)), ("cube4D", 9, ("randomQ", 9))):
        REC.begin_case({"kind": "cell object pickled by another process", "alg": alg, "N": N}, cls="cell object pickled by another process")
        with tempfile.TemporaryDirectory(prefix="verif_c04p_") as d:
            path = os.path.join(d, "sv.pkl")
            code = ("import pickle, sys, warnings; warnings.filterwarnings('ignore');"
                    "from molgri.space.rotobj import SphereGrid4DFactory as F;"
                    f"sv = F.create(alg_name={alg!r}, N={N}).get_spherical_voronoi(); sv.get_voronoi_adjacency();"
                    f"pickle.dump(sv, open({path!r}, 'wb'))")
            env = dict(os.environ, MOLGRI_VERIF="0")
            r = subprocess.run([sys.executable, "-c", code], env=env, stdout=subprocess.DEVNULL, stderr=subprocess.PIPE, timeout=900)
            if r.returncode != 0 or not os.path.exists(path):
                REC.notes["cell objects cannot be pickled by this tree (not judged)"] += 1
                continue
            try:
                mine = F4.create(alg_name=own[0], N=own[1])
                mine.get_voronoi_adjacency(); mine.get_cell_borders()
                sv = pickle.load(open(path, "rb"))
                sv.get_voronoi_adjacency(); sv.get_cell_borders(); sv.get_center_distances()
                mine.get_center_distances(); mine.get_voronoi_adjacency()
                REC.nontrivial_case(("foreign pickle", alg, N))
            except Exception as e:
                REC.crashed("C04.call_raised", e)


def shards(tier, seed):
    Ns = QUICK_N if tier == "quick" else THOROUGH_N
    jobs = [(alg, N) for alg in ("cube4D", "randomQ") for N in Ns]
    if tier == "quick":
        jobs.append(("randomQ", 84))  # smallest grid with faces so small that a 7-decimal rounding of the cosine law makes their area negative
    nsh = 16 if tier == "quick" else 64
    byN = {}
    for alg, N in jobs:
        byN.setdefault(N, []).append(alg)
    buckets = [[] for _ in range(nsh)]
    load = [0] * nsh
    for N in sorted(byN, reverse=True):     # both algorithms of one N in the same process, alternating order
        k = load.index(min(load))
        algs = sorted(byN[N])
        if N % 2:
            algs = algs[::-1]
        buckets[k].extend([a, N] for a in algs)
        load[k] += len(algs) * (N ** 3 + 50 * N ** 2 + 20000)
    out = [{"jobs": b} for b in buckets if b]
    out[-1]["consumers"] = True
    return out


def run_shard(spec):
    from molgri.space.rotobj import SphereGrid4DFactory
    geom4.install()
    from vlib.props import c07
    c07.install()
    if spec.get("consumers"):
        drive_consumers(SphereGrid4DFactory)
        drive_foreign_pickle(SphereGrid4DFactory)
    for k, (alg, N) in enumerate(spec["jobs"]):
        drive(SphereGrid4DFactory, alg, N, order=k + spec.get("seed", 0), selftest=(N in (8, 12, 20, 40, 60, 100) or k == 0))


def replay(case):
    from molgri.space.rotobj import SphereGrid4DFactory
    geom4.install()
    drive(SphereGrid4DFactory, case["alg"], case["N"], case.get("order", 0))
