"""C12 - MSM transition matrix is the symmetrised, row-normalised lag-tau count matrix.

Monitor: postcondition on the real MSM.get_one_tau_transition_matrix; oracle = 15-line counting model.
Workload: exhaustive short trajectories over {0,1,2,NaN} x every tau x both window modes, plus random long ones.
"""
import itertools
import random

import numpy as np

from vlib import attach
from vlib.rec import REC

ID = "C12"
LEVEL = "exploration"
DECIDING = ["C12.transition_matrix"]
RULE = ("every trajectory over the alphabet {0,1,2,NaN} of length 0..Lmax (quick Lmax=5, thorough Lmax=7), every lag "
        "tau in 1..L+1, both window modes (half of the trajectories through ONE live MSM object asked repeatedly), total_num_cells=4 (cell 3 never visited), plus seeded random long "
        "trajectories (L<=2000, up to 3e6 cells incl. the high end of the index range, NaN runs, tau given as int/float/str) one trajectory of 1.0-1.3e5 frames per run and one beyond 1e6 frames (thorough 2.3e6, 4.2e6 and 1.05e7, lags 3..13 that do not divide round block sizes); cell counts at powers of two and their neighbours (16..65537) with the last cell visited; trajectories stored as float64/float32/float16/int64/int32/int16/uint8/uint16/uint32 arrays, views and lists; a case is the triple "
        "(trajectory, tau, mode); non-trivial = at least one counted window and >=2 distinct visited cells; "
        "distinct by digest of the triple")
ASSUMPTIONS = ["cell indices in the trajectory are < total_num_cells (larger ones are outside the property)",
               "numpy/scipy sparse arithmetic; the model divides counts by row sums, the code multiplies by reciprocals: "
               "compared at 1e-12"]
EXHAUSTIVE = {"quick": True, "thorough": True}
MIN_NONTRIVIAL = {"quick": 500, "thorough": 5000}
SHARD_TIMEOUT = {"quick": 600, "thorough": 3600}

N_CELLS_SMALL = 4
ALPHABET = (0.0, 1.0, 2.0, float("nan"))


# --------------------------------------------------------------------------------------- oracle
def model(seq, tau, noncorr, n):
    tau = int(tau)
    step = tau if noncorr else 1
    c = np.zeros((n, n))
    L = len(seq)
    counted = 0
    for k in range(0, L - tau, step):
        a, b = seq[k], seq[k + tau]
        if a != a or b != b:
            continue
        c[int(a), int(b)] += 1
        counted += 1
    s = c + c.T
    rows = s.sum(axis=1)
    T = np.zeros_like(s)
    nz = rows > 0
    T[nz] = s[nz] / rows[nz, None]
    return T, rows, counted


# --------------------------------------------------------------------------------------- monitor
def transition_matrix_is_symmetrised_count_model(self, tau, noncorrelated_windows, result):
    mon = "C12.transition_matrix"
    try:
        # the model's input is what the CALLER handed to the constructor (recorded there), not what the object kept of it: a
        # constructor that "tidies" the trajectory (strips or compacts unassigned frames) shifts the window origin
        given = getattr(self, "_verif_given", None)
        seq = given[0] if given is not None else np.asarray(self.assigned_trajectory, dtype=float)
        n = given[1] if given is not None else int(self.total_num_cells)
        REC.classes["model input = constructor argument" if given is not None else "model input = object state"] += 1
        if n > 3000:
            return _judge_large(self, seq, n, tau, noncorrelated_windows, result)
        T, rows, counted = model(seq, tau, bool(noncorrelated_windows), n)
        R = result.toarray() if hasattr(result, "toarray") else np.asarray(result)
        problems = []
        if R.shape != (n, n):
            problems.append(f"shape {R.shape} != {(n, n)}")
        else:
            if not np.all(np.isfinite(R)):
                problems.append("non-finite entries")
            if not np.allclose(R, T, rtol=1e-12, atol=1e-14):
                i, j = np.unravel_index(np.argmax(np.abs(R - T)), R.shape)
                problems.append(f"entry ({i},{j}) = {R[i, j]!r}, model {T[i, j]!r}")
            rs = R.sum(axis=1)
            want = (rows > 0).astype(float)
            if not np.allclose(rs, want, atol=1e-12):
                problems.append(f"row sums {rs.tolist()} expected {want.tolist()}")
            if R.size and (R.min() < -1e-15 or R.max() > 1 + 1e-12):
                problems.append(f"entries outside [0,1]: min {R.min()} max {R.max()}")
            flux = rows[:, None] * R
            if not np.allclose(flux, flux.T, rtol=1e-12, atol=1e-12):
                problems.append("detailed balance w.r.t. visit counts broken")
        if problems:
            REC.fail(mon, {"problems": problems, "tau": repr(tau), "noncorr": bool(noncorrelated_windows),
                           "trajectory": seq[:60], "L": len(seq), "n": n})
        else:
            REC.ok(mon)
        transition_matrix_is_symmetrised_count_model.last = (counted, R)
    except Exception as e:  # the oracle itself failed: harness problem, make it visible
        REC.crashed("C12.oracle_error", e)
    return True


def _judge_large(self, seq, n, tau, noncorr, result):
    """same oracle on the compressed set of visited cells (a dense n x n model is not affordable for n ~ 1e5)"""
    mon = "C12.transition_matrix"
    cells = sorted({int(x) for x in seq if x == x})
    pos = {c: k for k, c in enumerate(cells)}
    comp = np.array([pos[int(x)] if x == x else np.nan for x in seq], dtype=float)
    T, rows, counted = model(comp, tau, bool(noncorr), max(1, len(cells)))
    R = result.tocoo()
    problems = []
    if R.shape != (n, n):
        problems.append(f"shape {R.shape} != {(n, n)}")
    else:
        outside = [(int(i), int(j), float(v)) for i, j, v in zip(R.row, R.col, R.data) if v != 0 and (i not in pos or j not in pos)]
        if outside:
            problems.append({"non-zero entries at never-visited cells": outside[:5]})
        sub = np.zeros_like(T)
        for i, j, v in zip(R.row, R.col, R.data):
            if i in pos and j in pos:
                sub[pos[int(i)], pos[int(j)]] += v
        if len(cells) and not np.allclose(sub, T, rtol=1e-12, atol=1e-14):
            a, b = np.unravel_index(np.argmax(np.abs(sub - T)), T.shape)
            problems.append(f"entry ({cells[a]},{cells[b]}) = {sub[a, b]!r}, model {T[a, b]!r}")
    if problems:
        REC.fail(mon, {"problems": problems, "tau": repr(tau), "noncorr": bool(noncorr), "n": n, "L": len(seq), "visited": cells[:20]})
    else:
        REC.ok(mon)
    transition_matrix_is_symmetrised_count_model.last = (counted, None)
    return True


def constructor_argument_recorded(arguments, result, exc):
    if exc is None:
        try:
            arguments["self"]._verif_given = (np.array(arguments["assigned_trajectory"], dtype=float, copy=True), int(arguments["total_num_cells"]))
        except Exception:
            pass


def install():
    from molgri.molecules.transitions import MSM
    attach.outcome(MSM, "__init__", constructor_argument_recorded)
    attach.ensure(MSM, "get_one_tau_transition_matrix", transition_matrix_is_symmetrised_count_model)
    return MSM


# --------------------------------------------------------------------------------------- workload
def drive(MSM, seq, tau, noncorr, n, check_reverse=False, obj=None):
    case = {"trajectory": ["nan" if x != x else int(x) for x in seq],
            "tau": tau if isinstance(tau, (int, str)) else float(tau), "noncorr": noncorr, "n": n}
    REC.begin_case(case, cls=[f"L={min(len(seq), 8) if len(seq) <= 8 else '>8'}", f"noncorr={noncorr}",
                              f"tau_type={type(tau).__name__}"], sample=(len(seq) == 5 and tau == 2 and seq[0] == 1.0))
    arr = np.array(seq, dtype=float)
    # the same trajectory in the forms callers hand over: float64 array, Python list, float32 array, integer array (if fully assigned),
    # a non-contiguous view
    form = (len(seq) * 7 + int(float(tau)) + (3 if noncorr else 0)) % 10
    if obj is None:
        whole = len(seq) > 0 and not np.isnan(arr).any()
        if form == 1:
            arr = [float(x) for x in seq]
        elif form == 2 and n <= 2 ** 24:
            arr = arr.astype(np.float32)
        elif form == 3 and whole:
            arr = arr.astype(np.int64)
        elif form == 4 and len(seq):
            arr = np.repeat(arr, 2)[::2]
        elif form == 6 and whole:      # the narrowest unsigned type that holds every cell index
            arr = arr.astype(np.uint8 if n <= 2 ** 8 else np.uint16 if n <= 2 ** 16 else np.uint32)
        elif form == 7 and whole:
            arr = arr.astype(np.int16 if n <= 2 ** 15 else np.int32)
        elif form == 8 and n <= 2 ** 11:
            arr = arr.astype(np.float16)     # integers up to 2048 are exact
        elif form == 9 and whole:
            arr = [int(x) for x in seq]
        REC.classes[f"trajectory_form={type(arr).__name__}:{getattr(arr, 'dtype', type(arr[0]).__name__ if len(arr) else '-')}"] += 1
    try:
        # obj given: the same live MSM object is asked again (other mode / other tau) - results must not depend on earlier requests
        out = (obj if obj is not None else MSM(arr, total_num_cells=n)).get_one_tau_transition_matrix(tau, noncorrelated_windows=noncorr)
    except Exception as e:
        REC.crashed("C12.call_raised", e)
        return
    counted, R = transition_matrix_is_symmetrised_count_model.last
    visited = {int(x) for x in seq if x == x}
    if counted > 0 and len(visited) >= 2:
        REC.nontrivial_case()
    if check_reverse and not noncorr and R is not None:
        try:
            out2 = MSM(np.array(seq, dtype=float)[::-1].copy(), total_num_cells=n).get_one_tau_transition_matrix(tau, noncorrelated_windows=False)
            R2 = out2.toarray()
            REC.check("C12.reversal_invariance", R.shape == R2.shape and np.allclose(R, R2, rtol=1e-12, atol=1e-14),
                      lambda: {"forward": R, "reversed": R2})
        except Exception as e:
            REC.crashed("C12.call_raised", e)
    # the multi-tau front end must return exactly the single-tau results
    return out


def run_exhaustive(MSM, spec):
    Lmax, nsh, sh = spec["Lmax"], spec["nshards"], spec["shard"]
    idx = 0
    for L in range(0, Lmax + 1):
        for seq in itertools.product(ALPHABET, repeat=L):
            idx += 1
            if idx % nsh != sh:
                continue
            shared = MSM(np.array(seq, dtype=float), total_num_cells=N_CELLS_SMALL) if idx % 2 == 0 else None
            for tau in range(1, L + 2):
                for noncorr in ((False, True) if tau % 2 else (True, False)):
                    drive(MSM, seq, tau, noncorr, N_CELLS_SMALL, check_reverse=(idx % 7 == 0), obj=shared)


def run_very_long(MSM, spec):
    """production trajectories have 1e5..1e7 frames: one trajectory beyond 1e5 frames per run, lags that do not divide round block sizes"""
    rng = random.Random(spec["rseed"])
    nprng = np.random.default_rng(spec["rseed"])
    L = 100000 + rng.randint(1000, 30000)
    n = 20
    seq = nprng.integers(0, n, size=L).astype(float)
    seq[nprng.random(L) < 0.01] = np.nan
    for tau in (rng.choice([3, 7, 9]), rng.choice([6, 11, 13])):
        for noncorr in (True, False):
            drive(MSM, seq.tolist(), tau, noncorr, n, check_reverse=False)


def run_million(MSM, spec):
    """one trajectory beyond 1e6 frames (thorough 2.3e6): block-wise implementations change behaviour only there. The case records how the
    trajectory is regenerated, not its frames"""
    rng = random.Random(spec["rseed"])
    nprng = np.random.default_rng(spec["rseed"])
    L = spec["L"] + rng.randint(1000, 90000)
    n = 20
    seq = nprng.integers(0, n, size=L).astype(float)
    seq[nprng.random(L) < 0.01] = np.nan
    for tau, noncorr in spec["runs"]:
        REC.begin_case({"million": True, "rseed": spec["rseed"], "L": L, "tau": tau, "noncorr": noncorr, "n": n}, cls=[f"L>1e6 noncorr={noncorr}"])
        try:
            MSM(seq, total_num_cells=n).get_one_tau_transition_matrix(tau, noncorrelated_windows=noncorr)
            REC.nontrivial_case()
        except Exception as e:
            REC.crashed("C12.call_raised", e)


def run_random(MSM, spec):
    rng = random.Random(spec["rseed"])
    for it in range(spec["count"]):
        # real full grids reach 1e5..1e6 cells; powers of two and their neighbours are where index types and markers change
        n = rng.choice([1, 2, 3, 5, 8, 20, 50, 50, 70000, 100000, 3 * 10 ** 6,
                        rng.choice([16, 17, 127, 128, 255, 256, 257, 2047, 2048, 4096, 4097, 5000, 32767, 32768, 65535, 65536, 65537])])
        L = rng.choice([1, 2, 3, 10, 50, 200, 600, 2000])
        if n > 3000:
            L = min(L, 200)
        p_nan = rng.choice([0.0, 0.05, 0.3, 0.9])
        visited_cells = rng.sample(range(n), rng.randint(1, min(n, 50)))
        if n > 3000 and rng.random() < 0.7:
            visited_cells = [n - 1 - c % 3000 for c in visited_cells]  # the high end of the index range
        if rng.random() < 0.5:
            visited_cells = sorted(set(visited_cells) | {n - 1, 0})     # the last and the first cell themselves
        seq = []
        while len(seq) < L:
            if rng.random() < p_nan:
                seq.extend([float("nan")] * rng.randint(1, 6))  # NaN runs
            else:
                c = float(rng.choice(visited_cells))
                seq.extend([c] * rng.randint(1, 4))  # metastable stretches
        seq = seq[:L]
        tau = rng.choice([1, 2, 3, 7, 10, 50, 300, L - 1, L, L + 1])
        tau = max(1, tau)
        form = rng.choice(["int", "float", "str"])
        tau_arg = tau if form == "int" else float(tau) if form == "float" else str(tau)
        shared = MSM(np.array(seq, dtype=float), total_num_cells=n) if it % 2 == 0 else None
        for noncorr in ((False, True, False) if it % 4 < 2 else (True, False)):
            drive(MSM, seq, tau_arg, noncorr, n, check_reverse=True, obj=shared)
        if it % 10 == 0:  # the all-tau front end
            taus = np.array(sorted({1, 2, max(1, tau)}))
            if it % 20 == 0:
                taus = np.array([max(1, tau), 1, 2, 1, max(1, tau // 2)])      # lags in the caller's order, one of them twice
            m = MSM(np.array(seq, dtype=float), total_num_cells=n)
            if n > 3000:
                continue
            try:
                allm = m.get_all_tau_transition_matrices(taus, noncorrelated_windows=False)
                ok = len(allm) == len(taus)
                for t, mat in zip(taus, allm):
                    T, _, _ = model(seq, int(t), False, n)
                    ok = ok and np.allclose(mat.toarray(), T, rtol=1e-12, atol=1e-14)
                REC.check("C12.all_tau_front_end", ok, {"taus": taus})
            except Exception as e:
                REC.crashed("C12.call_raised", e)


def shards(tier, seed):
    Lmax = 5 if tier == "quick" else 7
    nsh = 8 if tier == "quick" else 32
    out = [{"kind": "exhaustive", "Lmax": Lmax, "nshards": nsh, "shard": i} for i in range(nsh)]
    nr = 4 if tier == "quick" else 16
    per = 60 if tier == "quick" else 125
    out += [{"kind": "random", "rseed": seed * 1000 + i, "count": per} for i in range(nr)]
    out += [{"kind": "very_long", "rseed": seed * 1000 + 700 + i} for i in range(1 if tier == "quick" else 4)]
    if tier == "quick":
        out.append({"kind": "million", "rseed": seed * 1000 + 800, "L": 1000000, "runs": [[7, True], [11, True]]})
    else:
        out += [{"kind": "million", "rseed": seed * 1000 + 800 + i, "L": 2300000, "runs": runs}
                for i, runs in enumerate(([[7, True], [3, True]], [[11, True], [13, True]], [[9, False]]))]
        # production trajectories reach 1e7 frames: block sizes of 2^22 or 4e6 frames are passed only there
        out += [{"kind": "million", "rseed": seed * 1000 + 810, "L": 4200000, "runs": [[7, True], [33, True]]},
                {"kind": "million", "rseed": seed * 1000 + 811, "L": 10500000, "runs": [[11, True]]}]
    return out


def run_shard(spec):
    MSM = install()
    if spec["kind"] == "exhaustive":
        run_exhaustive(MSM, spec)
    elif spec["kind"] == "very_long":
        run_very_long(MSM, spec)
    elif spec["kind"] == "million":
        run_million(MSM, spec)
    else:
        run_random(MSM, spec)


def replay(case):
    MSM = install()
    if case.get("million"):
        return run_million(MSM, {"rseed": case["rseed"], "L": case["L"] - 1, "runs": [[case["tau"], case["noncorr"]]]})
    seq = case["trajectory"]
    seq = [float("nan") if x == "nan" else float(x) for x in seq]
    drive(MSM, seq, case["tau"], case["noncorr"], case["n"], check_reverse=True)
