"""C08 - grids and their geometry are reproducible, prefix-stable and history-independent.

Monitors:
 (i)   RNG trace specification: wrappers around numpy's global-generator functions log (event, caller is molgri?, call site, seed value);
       online checker: every draw made from a molgri frame must be preceded, with no foreign draw/seed in between, by a molgri seed() call,
       and a molgri call site always seeds the same constant.
 (ii)  offline comparison of recorded digests: every (algorithm, N, getter) result, reduced to an md5 of its bytes, must equal the golden
       digest produced by a *fresh interpreter* (other PYTHONHASHSEED, nothing but molgri imported, getters called once on a fresh object).
 (iii) prefix stability: grid(N) == grid(N+M)[:N] bitwise for the polytope algorithms.
 (iv)  purity: arbitrary interleavings / repetitions of getter calls on live objects keep returning the golden digests.
"""
import hashlib
import json
import os
import random
import subprocess
import sys

import numpy as np

ID = "C08"
LEVEL = "exploration"
DECIDING = ["C08.digest_equals_fresh_process", "C08.rng_trace", "C08.prefix"]
RULE = ("histories = random interleavings (length 6-20) of {construct (alg,N) [optionally with time_generation=True, optionally after building a larger polytope grid of the same "
        "algorithm], call getter g on live object k (repeats allowed; exact and approximate areas in any order), np.random.seed(s), draw r numbers from the global generator, "
        "in-place modification by the caller of the object a getter last returned, get_convex_hulls (in-place helper-point filter), PositionGrid getters, FullGrid getters incl. get_full_prefactors}; every getter result is compared bitwise with the "
        "digest from a fresh interpreter; prefix pairs (N, N+M) for ico, cube3D, cube4D. 3-D N<=60 (quick) / <=200 (thorough), 4-D N<=16 / "
        "<=40. Non-trivial = history with >=2 constructions and >=1 reseed/draw between constructions or getters; distinct by history digest")
ASSUMPTIONS = ["bit comparison via md5 of the raw arrays (sparse: format, index arrays, data)", "BLAS/OMP threads fixed to 1 in both processes",
               "'always' = across the histories generated; the fresh-interpreter golden is itself produced by the code under test"]
EXHAUSTIVE = {"quick": False, "thorough": False}
MIN_NONTRIVIAL = {"quick": 20, "thorough": 150}
SHARD_TIMEOUT = {"quick": 1200, "thorough": 7200}

G3 = ("grid", "grid_upper", "adjacency", "borders", "distances", "areas", "areas_approx")
G4 = ("grid", "grid_full", "adjacency", "borders", "distances", "volumes")
GP = ("pos_array", "pos_volumes", "pos_adjacency", "pos_borders", "pos_distances")
GF = ("full_array", "full_volumes", "full_adjacency", "full_borders", "full_distances", "full_prefactors")


# --------------------------------------------------------------------------------------- digests (used by both processes)
def dg(x):
    from scipy.sparse import issparse
    h = hashlib.md5()
    if issparse(x):
        h.update(x.format.encode())
        h.update(repr(x.shape).encode())
        names = ("row", "col", "data") if x.format == "coo" else ("indices", "indptr", "data")
        for nm in names:
            a = np.ascontiguousarray(getattr(x, nm))
            h.update(str(a.dtype).encode())
            h.update(a.tobytes())
    else:
        a = np.ascontiguousarray(np.asarray(x))
        h.update(str(a.dtype).encode())
        h.update(repr(a.shape).encode())
        h.update(a.tobytes())
    return h.hexdigest()


NFORMS = {"int": int, "int64": np.int64, "int32": np.int32, "0d_array": lambda n: np.asarray(n), "squeezed": lambda n: np.squeeze(np.array([n]))}


def small_getters(kind):
    """grids with fewer than four points have no tessellation; their points and their equal-share volumes are still functions of (alg, N)"""
    return ("grid", "grid_upper", "areas") if kind == "3d" else ("grid", "grid_full", "volumes")


def build(kind, alg, N, t=None, timed=False, nform="int"):
    kw = {"time_generation": True} if timed else {}   # a legal factory option that must not change the result
    if kind in ("3d", "4d"):
        N = NFORMS[nform](N)                          # the number of points in the integer types a caller may hold it in
    if kind == "3d":
        from molgri.space.rotobj import SphereGrid3DFactory
        return SphereGrid3DFactory.create(alg_name=alg, N=N, **kw)
    if kind == "4d":
        from molgri.space.rotobj import SphereGrid4DFactory
        return SphereGrid4DFactory.create(alg_name=alg, N=N, **kw)
    if kind == "full":
        from molgri.space.fullgrid import FullGrid
        b, tt = t.split("|")
        return FullGrid(b, f"{alg}_{N}", tt, factor=3)
    from molgri.space.fullgrid import PositionGrid
    return PositionGrid(o_grid_name=f"{alg}_{N}", t_grid_name=t)


def call(kind, obj, g):
    if kind == "3d":
        return {"grid": lambda: obj.get_grid_as_array(), "grid_upper": lambda: obj.get_grid_as_array(only_upper=True),
                "adjacency": lambda: obj.get_voronoi_adjacency(),
                "borders": lambda: obj.get_cell_borders(), "distances": lambda: obj.get_center_distances(),
                "areas": lambda: obj.get_spherical_voronoi().get_voronoi_volumes(),
                "areas_approx": lambda: obj.get_spherical_voronoi().get_voronoi_volumes(approx=True)}[g]()
    if kind == "4d":
        return {"grid": lambda: obj.get_grid_as_array(only_upper=True), "grid_full": lambda: obj.get_grid_as_array(only_upper=False),
                "adjacency": lambda: obj.get_voronoi_adjacency(), "borders": lambda: obj.get_cell_borders(),
                "distances": lambda: obj.get_center_distances(),
                "volumes": lambda: obj.get_spherical_voronoi().get_voronoi_volumes()}[g]()
    if kind == "full":
        return {"full_array": lambda: obj.get_full_grid_as_array(), "full_volumes": lambda: np.asarray(obj.get_total_volumes()),
                "full_adjacency": lambda: obj.get_full_adjacency(), "full_borders": lambda: obj.get_full_borders(),
                "full_distances": lambda: obj.get_full_distances(), "full_prefactors": lambda: obj.get_full_prefactors()}[g]()
    return {"pos_array": lambda: obj.get_position_grid_as_array(), "pos_volumes": lambda: obj.get_all_position_volumes(),
            "pos_adjacency": lambda: obj.get_adjacency_of_position_grid(), "pos_borders": lambda: obj.get_borders_of_position_grid(),
            "pos_distances": lambda: obj.get_distances_of_position_grid()}[g]()


def getters(kind):
    return {"3d": G3, "4d": G4, "pos": GP, "full": GF}[kind]


def golden_main(spec_path, out_path):
    """fresh interpreter: nothing but molgri; each getter once, in the fixed order, on a fresh object"""
    devnull = os.open(os.devnull, os.O_WRONLY)
    os.dup2(devnull, 1)
    os.dup2(devnull, 2)
    import warnings
    warnings.filterwarnings("ignore")
    specs = json.load(open(spec_path))
    out = {}
    for kind, alg, N, t in specs:
        key = json.dumps([kind, alg, N, t])
        try:
            gs = small_getters(kind) if kind in ("3d", "4d") and N < 4 else getters(kind)
            obj = build(kind, alg, N, t)
            out[key] = {}
            for g in gs:
                try:
                    out[key][g] = dg(call(kind, obj, g))
                except Exception:
                    pass          # no golden for this getter: the history run skips it
        except Exception as e:
            out[key] = {"__error__": repr(e)}
    import molgri
    out["__molgri__"] = molgri.__file__
    json.dump(out, open(out_path, "w"))


# --------------------------------------------------------------------------------------- RNG trace monitor
class RngTrace:
    FUNCS = ("seed", "shuffle", "random", "rand", "randn", "normal", "uniform", "randint", "choice", "permutation",
             "random_sample", "standard_normal", "set_state")

    def __init__(self, REC):
        self.REC = REC
        self.armed = False          # True between a molgri seed() and the next foreign event
        self.site_seed = {}
        self.events = 0
        self.molgri_draws = 0
        self.foreign_events = 0

    def _site(self):
        f = sys._getframe(2)
        while f is not None:
            fn = f.f_code.co_filename
            if "/numpy/" not in fn and not fn.endswith("c08.py") and "/icontract/" not in fn:
                return fn, f.f_lineno
            f = f.f_back
        return "?", 0

    def wrap(self, name, orig):
        trace = self

        def wrapper(*a, **k):
            fn, line = trace._site()
            from_molgri = "/molgri/" in fn.replace("\\", "/") and "/vlib/" not in fn
            trace.events += 1
            if name in ("seed", "set_state"):
                if from_molgri:
                    val = a[0] if a else k.get("seed")
                    site = f"{os.path.basename(fn)}:{line}"
                    if site in trace.site_seed and trace.site_seed[site] != val:
                        trace.REC.fail("C08.rng_trace", {"problem": "molgri call site seeds different values", "site": site,
                                                         "values": [trace.site_seed[site], val]})
                    trace.site_seed.setdefault(site, val)
                    if not isinstance(val, (int, np.integer)):
                        trace.REC.fail("C08.rng_trace", {"problem": "molgri seeds with a non-constant", "site": site, "value": repr(val)})
                    trace.armed = True
                else:
                    trace.armed = False
                    trace.foreign_events += 1
            else:
                if from_molgri:
                    trace.molgri_draws += 1
                    if trace.armed:
                        trace.REC.ok("C08.rng_trace")
                    else:
                        trace.REC.fail("C08.rng_trace", {"problem": "molgri draws from the global generator without seeding it first "
                                                                    "(result depends on the caller's RNG state)",
                                                         "site": f"{os.path.basename(fn)}:{line}", "function": name})
                else:
                    trace.armed = False
                    trace.foreign_events += 1
            return orig(*a, **k)

        wrapper.__name__ = name
        return wrapper

    def install(self):
        for nm in self.FUNCS:
            if hasattr(np.random, nm):
                setattr(np.random, nm, self.wrap(nm, getattr(np.random, nm)))


# --------------------------------------------------------------------------------------- history workload
POLY = {"ico": "3d", "cube3D": "3d", "randomS": "3d", "cube4D": "4d", "randomQ": "4d"}


def make_history(rng, tier):
    n3 = 60 if tier == "quick" else 200
    n4 = 16 if tier == "quick" else 40
    ops, objs = [], []
    L = rng.randint(6, 20)
    for _ in range(L):
        r = rng.random()
        if r < 0.25 or not objs:
            alg = rng.choice(list(POLY))
            kind = POLY[alg]
            N = rng.randint(1, n3) if kind == "3d" else rng.randint(1, n4)
            r2 = rng.random()
            if r2 < 0.2 and kind == "3d":
                kind = "pos"
                N = max(N, 4)
                t = rng.choice(["[0.1, 0.2]", "[0.3, 0.1, 0.25]", "linspace(0.2, 0.4, 3)"])
            elif r2 < 0.35 and kind == "3d":
                kind = "full"          # a full SE(3) grid: every matrix getter (and the in-place consumer get_full_prefactors) must be pure
                N = min(max(N, 4), 14)
                t = rng.choice(["4", "randomQ_5", "1", "cube4D_8"]) + "|" + rng.choice(["[0.1, 0.2]", "[0.3, 0.1, 0.25]"])
                if rng.random() < 0.3:
                    # a single position cell: the full matrices ARE the rotation-grid matrices (no block assembly in between)
                    N, t = 1, rng.choice(["cube4D_8", "randomQ_6", "5"]) + "|[0.1]"
            else:
                t = None
            if alg in ("ico", "cube3D", "cube4D") and rng.random() < 0.3:
                big = N + rng.randint(1, 30 if POLY[alg] == "3d" else 8)
                ops.append(["construct_discard", POLY[alg], alg, big, None])
            ops.append(["construct", kind, alg, N, t] + (["timed"] if kind in ("3d", "4d") and rng.random() < 0.25 else [])
                       + (["nform=" + rng.choice(["int64", "int32", "0d_array", "squeezed"])] if kind in ("3d", "4d") and rng.random() < 0.4 else []))
            objs.append((kind, alg, N, t))
        elif r < 0.7:
            k = rng.randrange(len(objs))
            kind, alg, N, t = objs[k]
            small = (kind in ("3d", "4d") and N < 4)
            gs = small_getters(kind) if small else getters(kind)
            if kind in ("3d", "4d") and not small and rng.random() < 0.2:
                # a history element only: one of the matrix getters with non-default options; the default answers asked for later (on this
                # and on every other object) must not have moved
                ops.append(["get_nondefault", k, rng.choice(["adjacency", "borders", "distances"]),
                            {"only_upper": rng.random() < 0.5, "include_opposing_neighbours": rng.random() < 0.5}])
            ops.append(["get", k, rng.choice(gs)])
        elif r < 0.715 and any(o[0] == "3d" and o[2] >= 4 for o in objs):
            # the cell object built directly from a grid's points (as the package's own tests do), its half-sphere relative, and a second
            # gen_grid() on the live grid - all after foreign RNG events, all under the RNG trace
            ops.append(["direct_voronoi", rng.choice([k for k, o in enumerate(objs) if o[0] == "3d" and o[2] >= 4])])
        elif r < 0.72:
            # the live object is replaced by a copy of itself (deepcopy or pickle round trip); the copy must answer like a fresh object
            ops.append(["copy", rng.randrange(len(objs)), rng.choice(["deepcopy", "pickle"])])
        elif r < 0.74:
            ops.append(["scramble", rng.randrange(len(objs))])   # hostile caller: modifies the last object this grid handed out, in place
        elif r < 0.8:
            ops.append(["seed", rng.randrange(2 ** 31)])
        elif r < 0.9:
            ops.append(["draw", rng.randint(1, 50)])
        else:
            k = rng.randrange(len(objs))
            if objs[k][0] == "4d" and objs[k][2] >= 4:
                ops.append(["hulls", k])
            else:
                ops.append(["draw", 3])
    return ops, objs


def run_history(REC, ops, golden):
    live = []
    last = {}
    nconstruct, noise_between = 0, False
    for op in ops:
        try:
            if op[0] in ("construct", "construct_discard"):
                _, kind, alg, N, t = op[:5]
                nform = ([x.split("=")[1] for x in op[5:] if str(x).startswith("nform=")] or ["int"])[0]
                obj = build(kind, alg, N, t, timed=("timed" in op[5:]), nform=nform)
                if op[0] == "construct":
                    live.append((kind, alg, N, t, obj))
                    nconstruct += 1
            elif op[0] == "get":
                _, k, g = op
                kind, alg, N, t, obj = live[k]
                res = call(kind, obj, g)
                d = dg(res)
                if g not in ("grid", "grid_full", "pos_array", "full_array"):   # the grid arrays themselves are the objects' own state
                    last[k] = res
                want = golden.get(json.dumps([kind, alg, N, t]), {})
                if "__error__" in want or g not in want:
                    REC.skip("C08.digest_equals_fresh_process", "no golden for this getter")
                else:
                    REC.check("C08.digest_equals_fresh_process", d == want[g],
                              {"object": [kind, alg, N, t], "getter": g, "digest": d, "fresh_process_digest": want[g]})
            elif op[0] == "construct_get_drop":
                _, kind, alg, N, t, gs = op
                obj = build(kind, alg, N, t)
                want = golden.get(json.dumps([kind, alg, N, t]), {})
                for g in gs:
                    d = dg(call(kind, obj, g))
                    if "__error__" in want or g not in want:
                        REC.skip("C08.digest_equals_fresh_process", "no golden for this getter")
                    else:
                        REC.check("C08.digest_equals_fresh_process", d == want[g],
                                  {"object": [kind, alg, N, t], "getter": g, "digest": d, "fresh_process_digest": want[g], "history": "churn"})
                del obj
                nconstruct += 1
            elif op[0] == "get_nondefault":
                _, k, g, opts = op
                obj = live[k][4]
                try:
                    {"adjacency": obj.get_voronoi_adjacency, "borders": obj.get_cell_borders, "distances": obj.get_center_distances}[g](**opts)
                except Exception:
                    pass   # its own outcome is not C08's business
            elif op[0] == "direct_voronoi":
                from molgri.space.voronoi import RotobjVoronoi
                kind, alg, N, t, obj = live[op[1]]
                np.random.random(3)                      # a foreign event: the generator is in the caller's hands now
                noise_between = True
                sv = RotobjVoronoi(np.array(obj.get_grid_as_array(), dtype=float))
                a1 = sv.get_voronoi_volumes(approx=True)
                want = golden.get(json.dumps([kind, alg, N, t]), {})
                if "areas_approx" in want:
                    REC.check("C08.digest_equals_fresh_process", dg(a1) == want["areas_approx"],
                              {"object": [kind, alg, N, t], "getter": "areas_approx of a cell object built directly from the grid's points"})
                np.random.random(2)
                try:
                    obj.get_spherical_voronoi().get_related_half_voronoi().get_voronoi_volumes(approx=True)
                except Exception:
                    pass
                np.random.random(2)
                obj.gen_grid()
            elif op[0] == "copy":
                kind, alg, N, t, obj = live[op[1]]
                try:
                    import copy, pickle
                    new = copy.deepcopy(obj) if op[2] == "deepcopy" else pickle.loads(pickle.dumps(obj))
                except Exception:
                    REC.notes[f"{op[2]} of a {kind} object not supported (not judged)"] += 1
                else:
                    live[op[1]] = (kind, alg, N, t, new)
                    REC.notes[f"{op[2]} of a {kind} object replaced the live object"] += 1
            elif op[0] == "scramble":
                res = last.get(op[1])
                try:
                    if res is not None and hasattr(res, "data") and hasattr(res, "format"):
                        res.data *= 3.5
                    elif isinstance(res, np.ndarray) and res.flags.writeable and res.dtype.kind == "f":
                        res *= 3.5
                except Exception:
                    pass
            elif op[0] == "seed":
                np.random.seed(op[1])
                noise_between = True
            elif op[0] == "draw":
                np.random.random(op[1])
                noise_between = True
            elif op[0] == "hulls":
                live[op[1]][4].get_spherical_voronoi().get_convex_hulls()
        except Exception as e:
            REC.crashed("C08.call_raised", e)
            return False
    return nconstruct >= 2 and noise_between


def golden_for(specs, scratch_tag):
    import tempfile
    d = tempfile.mkdtemp(prefix="verif_c08_")
    try:
        sp, op = os.path.join(d, "spec.json"), os.path.join(d, "out.json")
        json.dump(specs, open(sp, "w"))
        env = dict(os.environ)
        env["PYTHONHASHSEED"] = "4242"
        env.pop("MOLGRI_VERIF", None)
        subprocess.run([sys.executable, "-c", "import sys; from vlib.props.c08 import golden_main; golden_main(sys.argv[1], sys.argv[2])", sp, op],
                       env=env, timeout=3000, check=True, stdout=subprocess.DEVNULL, stderr=subprocess.DEVNULL)
        return json.load(open(op))
    finally:
        import shutil
        shutil.rmtree(d, ignore_errors=True)


def run_histories(spec):
    from vlib.rec import REC
    trace = RngTrace(REC)
    trace.install()
    rng = random.Random(spec["rseed"])
    hist = [make_history(rng, spec["tier"]) for _ in range(spec["count"])]
    if spec["rseed"] % 1000 == 0:
        # every run: a single-position full grid whose matrices are consumed in place by the package's own get_full_prefactors
        fixed = [["construct", "full", "ico", 1, "cube4D_8|[0.1]"], ["get", 0, "full_prefactors"], ["get", 0, "full_borders"],
                 ["get", 0, "full_distances"], ["seed", 7], ["get", 0, "full_prefactors"], ["get", 0, "full_adjacency"],
                 ["construct", "4d", "cube4D", 8, None], ["get", 1, "borders"], ["scramble", 1], ["get", 1, "borders"], ["get", 1, "distances"],
                 ["construct", "3d", "randomS", 20, None], ["draw", 4], ["direct_voronoi", 2], ["get", 2, "areas_approx"], ["get", 2, "areas"],
                 ["construct", "3d", "ico", 14, None], ["seed", 99], ["direct_voronoi", 3], ["get", 3, "areas_approx"]]
        hist.append((fixed, [("full", "ico", 1, "cube4D_8|[0.1]"), ("4d", "cube4D", 8, None), ("3d", "randomS", 20, None), ("3d", "ico", 14, None)]))
    if spec["rseed"] % 1000 == 1:
        # every run: the grids with fewer than four points, with N held in every integer form, all their getters
        ops, objs = [], []
        for alg, kind in POLY.items():
            for N in (1, 2, 3):
                for nform in ("int",) + tuple(k for k in NFORMS if k != "int"):
                    ops.append(["construct", kind, alg, N, None, "nform=" + nform])
                    objs.append((kind, alg, N, None))
                    ops += [["get", len(objs) - 1, g] for g in small_getters(kind)]
                ops.append(["draw", 2])
        hist.append((ops, objs))
    if spec["rseed"] % 1000 == 2:
        # every run: object churn - grids of EQUAL size from different algorithms are built, asked and dropped in a loop, so that new point
        # sets land on the addresses of freed ones (anything remembered by id(), by shape or by N alone surfaces here)
        crng = random.Random(spec["rseed"] + 17)
        ops, objs = [], []
        for N in (crng.randint(5, 12), crng.randint(13, 30), crng.randint(31, 60)):
            for rep in range(14):
                for alg in crng.sample(["ico", "cube3D", "randomS"], 3):
                    ops.append(["construct_get_drop", "3d", alg, N, None, crng.sample(["grid_upper", "areas", "adjacency", "distances"], 2)])
                    objs.append(("3d", alg, N, None))
        for N in (crng.randint(4, 8), crng.randint(9, 14)):
            for rep in range(4):
                for alg in crng.sample(["cube4D", "randomQ"], 2):
                    ops.append(["construct_get_drop", "4d", alg, N, None, crng.sample(["grid", "volumes", "adjacency", "borders"], 2)])
                    objs.append(("4d", alg, N, None))
        hist.append((ops, objs))
    needed = sorted({(k, a, N, t) for _, objs in hist for (k, a, N, t) in objs}, key=repr)
    golden = golden_for([list(x) for x in needed], spec["rseed"])
    import molgri
    if os.path.abspath(golden.get("__molgri__", "")) != os.path.abspath(molgri.__file__):
        REC.fail("C08.oracle_error", {"problem": "golden process imported a different molgri", "golden": golden.get("__molgri__")})
        return
    for i, (ops, objs) in enumerate(hist):
        REC.begin_case({"history": ops}, cls=[f"len<={5 * ((len(ops) + 4) // 5)}"], sample=(i == 0))
        if run_history(REC, ops, golden):
            REC.nontrivial_case(ops)
    REC.extra["rng_events"] = trace.events
    REC.extra["rng_molgri_draws"] = trace.molgri_draws
    REC.extra["rng_foreign_events"] = trace.foreign_events
    REC.extra["rng_molgri_seed_sites"] = [f"{k}={v}" for k, v in sorted(trace.site_seed.items())]


def run_prefix(spec):
    from vlib.rec import REC
    trace = RngTrace(REC)
    trace.install()
    rng = random.Random(spec["rseed"])
    for alg, kind, nmax in (("ico", "3d", spec["n3"]), ("cube3D", "3d", spec["n3"]), ("cube4D", "4d", spec["n4"])):
        for _ in range(spec["pairs"]):
            N = rng.randint(1, nmax)
            M = rng.choice([0, 1, 2, rng.randint(1, nmax)])
            REC.begin_case({"alg": alg, "N": N, "M": M}, cls=f"prefix {alg}", sample=(alg == "ico" and M > 2))
            try:
                np.random.seed(rng.randrange(2 ** 31))
                np.random.random(rng.randint(0, 5))
                big = call(kind, build(kind, alg, N + M), "grid")
                np.random.random(rng.randint(0, 5))
                small = call(kind, build(kind, alg, N), "grid")
                REC.check("C08.prefix", np.asarray(small).tobytes() == np.asarray(big)[:N].tobytes(),
                          {"alg": alg, "N": N, "M": M})
                REC.nontrivial_case(("prefix", alg, N, M))
            except Exception as e:
                REC.crashed("C08.call_raised", e)


def shards(tier, seed):
    if tier == "quick":
        return [{"kind": "histories", "rseed": seed * 1000 + i, "count": 4} for i in range(8)] + \
               [{"kind": "prefix", "rseed": seed * 1000 + 500, "n3": 170, "n4": 20, "pairs": 12}]
    return [{"kind": "histories", "rseed": seed * 1000 + i, "count": 19} for i in range(16)] + \
           [{"kind": "prefix", "rseed": seed * 1000 + 500 + i, "n3": 700, "n4": 60, "pairs": 12} for i in range(6)]


def run_shard(spec):
    (run_histories if spec["kind"] == "histories" else run_prefix)(spec)


def replay(case):
    from vlib.rec import REC
    trace = RngTrace(REC)
    trace.install()
    if "history" in case:
        ops = case["history"]
        objs = sorted({(o[1], o[2], o[3], o[4]) for o in ops if o[0] == "construct"}, key=repr)
        golden = golden_for([list(x) for x in objs], 0)
        REC.begin_case(case)
        run_history(REC, ops, golden)
    else:
        kind = POLY[case["alg"]]
        big = call(kind, build(kind, case["alg"], case["N"] + case["M"]), "grid")
        small = call(kind, build(kind, case["alg"], case["N"]), "grid")
        REC.check("C08.prefix", np.asarray(small).tobytes() == np.asarray(big)[:case["N"]].tobytes(), case)
