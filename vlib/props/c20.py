"""C20 - persisted grids and energy tables are read back value- and order-exact.

Monitors: outcome monitors on GridWriter.save_* (remember, per path, what was handed to the writer) and postconditions on
GridReader.load_* (bit comparison with what was remembered for that path); postconditions on EnergyReader.load_energy /
load_single_energy_column against the ground-truth table registered by the generator for that path.
"""
import os
import random
import shutil
import tempfile

import numpy as np
from scipy import sparse

from vlib import attach
from vlib.rec import REC

ID = "C20"
LEVEL = "exploration"
DECIDING = ["C20.grid_roundtrip", "C20.energy_table", "C20.energy_column"]
RULE = ("grid round trips: FullGrid specifications from a box of small sizes (n_b in {1,2,3,4,5,8}, n_o in {1,2,3,4,7,12}, n_t in {1,2,3}, both "
        "position modes, several factors), five files each, including re-saving a different grid under the same file names and reading again; "
        "energy tables: generated xvg files with 0-13 '#' lines, '@' filler lines before/after the legends to reach >=13 header lines, 1-10 "
        "legends (spaces, brackets, '@', '#', commas, s10-lookalikes, prefixes of each other, at most one empty), 1-2000 rows (some lines repeated verbatim), values written %.6f / %g / repr, "
        "GROMACS-style right-aligned columns; csv round trip of the loaded frame. Non-trivial = grid with >=2 cells / table with >=2 series or "
        ">=2 rows; distinct by grid spec / by file digest")
ASSUMPTIONS = ["npy/npz comparisons are bit-exact (format, index arrays, data)",
               "text -> double goes through pandas' default (not round-trip exact) float parser: energy values are compared at rtol 1e-9 against "
               "Python's exact float() of the written text; the number of last-bit differences is reported",
               "legend texts contain no double quote; legends of one file are pairwise distinct; an empty legend is read from xvg but its csv "
               "round trip is not judged (pandas cannot represent an empty column name in csv)",
               "what the writer was handed is re-obtained by calling the same FullGrid getter again right after save (getter purity is C08)"]
EXHAUSTIVE = {"quick": False, "thorough": False}
MIN_NONTRIVIAL = {"quick": 100, "thorough": 2000}

SAVED = {}      # abspath -> ("array"|"sparse", object handed to the writer)
TABLES = {}     # abspath -> dict(columns=[...], values=ndarray rows x cols)


# --------------------------------------------------------------------------------------- grid monitors
def _remember(kind, getter):
    def observer(arguments, result, exc):
        if exc is not None:
            return
        self = arguments["self"]
        path = [v for k, v in arguments.items() if k != "self"][0]
        try:
            obj = getter(self.fg)
            real = path if os.path.exists(path) else path + (".npy" if kind == "array" else ".npz")
            SAVED[os.path.abspath(real)] = (kind, obj)
            REC.ok("C20.saved_registered")
        except Exception as e:
            REC.crashed("C20.oracle_error", e)
    observer.__name__ = "remember_" + getter.__name__
    return observer


def _same_sparse(a, b):
    if type(a) is not type(b) or a.format != b.format or a.shape != b.shape or a.dtype != b.dtype:
        return f"type/format/shape/dtype: {type(a).__name__}/{a.format}/{a.shape}/{a.dtype} vs {type(b).__name__}/{b.format}/{b.shape}/{b.dtype}"
    names = ("row", "col", "data") if a.format == "coo" else ("indices", "indptr", "data")
    for nm in names:
        x, y = getattr(a, nm), getattr(b, nm)
        if x.shape != y.shape or not np.array_equal(x, y):
            return f"{nm} arrays differ"
        if nm == "data" and x.tobytes() != y.tobytes():
            return "data not bit-identical"
    return None


def _loaded_equals_saved(path, result):
    mon = "C20.grid_roundtrip"
    try:
        key = os.path.abspath(path)
        if key not in SAVED:
            REC.skip(mon, "file not written through a monitored GridWriter")
            return True
        kind, obj = SAVED[key]
        if kind == "array":
            want = np.asarray(obj)
            if not isinstance(result, np.ndarray) or result.shape != want.shape or result.dtype != want.dtype \
                    or result.tobytes() != want.tobytes():
                REC.fail(mon, {"path": os.path.basename(path), "problem": "array differs",
                               "loaded_shape": getattr(result, "shape", None), "saved_shape": want.shape})
                return True
        else:
            why = _same_sparse(obj, result) if sparse.issparse(result) else "loaded object is not sparse"
            if why:
                REC.fail(mon, {"path": os.path.basename(path), "problem": why})
                return True
        REC.ok(mon)
    except Exception as e:
        REC.crashed("C20.oracle_error", e)
    return True


def load_full_grid_equals_saved(self, path_grid_file, result):
    return _loaded_equals_saved(path_grid_file, result)


def load_volumes_equals_saved(self, path_volumes, result):
    return _loaded_equals_saved(path_volumes, result)


def load_borders_equals_saved(self, path_borders_array, result):
    return _loaded_equals_saved(path_borders_array, result)


def load_distances_equals_saved(self, path_distances_array, result):
    return _loaded_equals_saved(path_distances_array, result)


def load_adjacency_equals_saved(self, path_adjacency_array, result):
    return _loaded_equals_saved(path_adjacency_array, result)


# --------------------------------------------------------------------------------------- energy monitors
def energy_table_matches_file(self, result):
    mon = "C20.energy_table"
    try:
        key = os.path.abspath(self.path_energy)
        if key not in TABLES:
            REC.skip(mon, "file not generated by the harness")
            return True
        t = TABLES[key]
        problems = []
        cols = [str(c) for c in result.columns]
        if cols != t["columns"]:
            problems.append({"columns": cols, "expected": t["columns"]})
        vals = result.to_numpy(dtype=float) if result.shape[1] else np.zeros((len(result), 0))
        if vals.shape != t["values"].shape:
            problems.append({"shape": vals.shape, "expected": t["values"].shape})
        elif not np.allclose(vals, t["values"], rtol=1e-9, atol=0):
            r, c = np.unravel_index(np.argmax(np.abs(vals - t["values"])), vals.shape)
            problems.append({"row": int(r), "col": int(c), "loaded": vals[r, c], "written": t["values"][r, c]})
        else:
            REC.notes["last-bit differences text->double"] += int(np.sum(vals != t["values"]))
        if "index" in t and list(result.index) != t["index"]:
            problems.append({"index": list(result.index)[:10], "expected": t["index"][:10]})
        if problems:
            REC.fail(mon, {"file": os.path.basename(key), "problems": problems})
        else:
            REC.ok(mon)
    except Exception as e:
        REC.crashed("C20.oracle_error", e)
    return True


def energy_column_matches_file(self, energy_type, result):
    mon = "C20.energy_column"
    try:
        key = os.path.abspath(self.path_energy)
        if key not in TABLES:
            REC.skip(mon, "file not generated by the harness")
            return True
        t = TABLES[key]
        j = t["columns"].index(energy_type)
        want = t["values"][:, j]
        got = np.asarray(result, dtype=float)
        REC.check(mon, got.shape == want.shape and np.allclose(got, want, rtol=1e-9, atol=0),
                  lambda: {"file": os.path.basename(key), "column": energy_type, "loaded": got[:8], "written": want[:8]})
    except Exception as e:
        REC.crashed("C20.oracle_error", e)
    return True


def install():
    import molgri.io as io
    attach.outcome(io.GridWriter, "save_full_grid", _remember("array", lambda fg: fg.get_full_grid_as_array()), key="a")
    attach.outcome(io.GridWriter, "save_volumes", _remember("array", lambda fg: np.asarray(fg.get_total_volumes())), key="v")
    attach.outcome(io.GridWriter, "save_borders_array", _remember("sparse", lambda fg: fg.get_full_borders()), key="b")
    attach.outcome(io.GridWriter, "save_distances_array", _remember("sparse", lambda fg: fg.get_full_distances()), key="d")
    attach.outcome(io.GridWriter, "save_adjacency_array", _remember("sparse", lambda fg: fg.get_full_adjacency()), key="j")
    attach.ensure(io.GridReader, "load_full_grid", load_full_grid_equals_saved)
    attach.ensure(io.GridReader, "load_volumes", load_volumes_equals_saved)
    attach.ensure(io.GridReader, "load_borders_array", load_borders_equals_saved)
    attach.ensure(io.GridReader, "load_distances_array", load_distances_equals_saved)
    attach.ensure(io.GridReader, "load_adjacency_array", load_adjacency_equals_saved)
    attach.ensure(io.EnergyReader, "load_energy", energy_table_matches_file)
    attach.ensure(io.EnergyReader, "load_single_energy_column", energy_column_matches_file)
    return io


# --------------------------------------------------------------------------------------- workloads
FILES = ("full_array.npy", "volumes.npy", "borders_array.npz", "distances_array.npz", "adjacency_array.npz")


def write_and_read(io, spec, d):
    os.makedirs(d, exist_ok=True)
    b, o, t, f, cart = spec
    REC.begin_case({"kind": "grid", "b": b, "o": o, "t": t, "factor": f, "cartesian": cart},
                   cls=[f"cartesian={cart}", f"n_b={b}"], sample=(b == "8" and o == "12"))
    try:
        w = io.GridWriter(b, o, t, factor=f, position_grid_cartesian=cart)
        paths = [os.path.join(d, nm) for nm in FILES]
        w.save_full_grid(paths[0])
        w.save_volumes(paths[1])
        w.save_borders_array(paths[2])
        w.save_distances_array(paths[3])
        w.save_adjacency_array(paths[4])
        r = io.GridReader()
        arr = r.load_full_grid(paths[0])
        r.load_volumes(paths[1])
        r.load_borders_array(paths[2])
        r.load_distances_array(paths[3])
        r.load_adjacency_array(paths[4])
        if len(arr) >= 2:
            REC.nontrivial_case(("grid", b, o, t, f, cart))
    except Exception as e:
        REC.crashed("C20.call_raised", e)


def run_grids(io, spec):
    rng = random.Random(spec["rseed"])
    d = tempfile.mkdtemp(prefix="verif_c20_")
    try:
        if spec["rseed"] % 1000 == 0:
            # a grid whose border matrix spans more than eight orders of magnitude (large position faces, tiny rotation faces)
            write_and_read(io, ("randomQ_20", "ico_7", "[1, 2]", 2, False), os.path.join(d, "wide"))
        bs = ["1", "2", "3", "4", "5", "8", "randomQ_6", "cube4D_9"]
        os_ = ["1", "2", "3", "4", "7", "12", "cube3D_8", "randomS_9", "ico_13"]
        ts = ["[0.1]", "[0.1, 0.25]", "[0.3, 0.2, 0.5]", "linspace(0.2, 0.4, 3)", "range(1, 3)"]
        for it in range(spec["count"]):
            b, o, t = rng.choice(bs), rng.choice(os_), rng.choice(ts)
            f = rng.choice([0.5, 1, 2, 3.7])
            n_o = int(o.split("_")[-1])
            cart = rng.random() < 0.4 and n_o >= 4
            sub = os.path.join(d, f"g{it % 3}")  # only three directories: file names are re-used by different grids
            os.makedirs(sub, exist_ok=True)
            write_and_read(io, (b, o, t, f, cart), sub)
            if it % 3 == 0:
                # history: save a different grid under the same names, then read again (a reader-side cache keyed by path would be stale)
                b2 = rng.choice([x for x in bs if x != b])
                write_and_read(io, (b2, o, t, f, cart), sub)
            if it % 3 == 1:
                # the same history with a grid of the SAME shape (equal file sizes): another factor, radii moved, the sibling algorithm of equal N
                twins = [(b, o, t, 1.5 * f, cart)]
                if t.startswith("["):
                    vals = t.strip("[]").split(",")
                    twins.append((b, o, "[" + ",".join(vals[:-1] + [" " + repr(round(float(vals[-1]) + 0.05, 6))]) + "]", f, cart))
                sib = {"randomQ_6": "cube4D_6", "cube4D_9": "randomQ_9", "8": "randomQ_8", "5": "randomQ_5"}.get(b)
                if sib:
                    twins.append((sib, o, t, f, cart))
                sibo = {"cube3D_8": "randomS_8", "randomS_9": "ico_9", "ico_13": "cube3D_13", "12": "randomS_12", "7": "cube3D_7"}.get(o)
                if sibo:
                    twins.append((b, sibo, t, f, cart))
                write_and_read(io, rng.choice(twins), sub)
                write_and_read(io, (b, o, t, f, cart), sub)
    finally:
        shutil.rmtree(d, ignore_errors=True)


LEGEND_WORDS = ["Coul-SR:SOL_ION-SOL_ION", "Coul-SR:SOL_ION-SOL", "Coul-SR", "Pot", "Potential", "LJ (SR)", "Coulomb (SR)", "Disper. corr.", "Pres. DC (bar)", "Coul. SR @ 1.2 nm", "Kinetic En.",
                "s10 legend", "legend s1", "# of contacts", "E[kJ/mol]", "a,b", "Total Energy", "T-rest", "Box-X", " padded ",
                "x" * 40, "s9", "Time",
                # legends whose words are separated by more than one blank, or by a tab
                "Pres.  DC (bar)", "Coul-SR:SOL   -SOL", "two\twords", "  two leading blanks",
                # xmgrace escapes: font switches, a literal backslash (written as two), a legend ending in one
                "Temp\\S-1\\N", "a\\\\b", "C:\\\\", "trailing\\", "\\xm\\f{} (nm)"]


def fmt_value(rng, v, style):
    if style == "f6":
        return "%.6f" % v
    if style == "g":
        return "%g" % v
    return repr(float(v))


def make_xvg(rng, nprng, path):
    n_leg = rng.randint(1, 10)
    legends = rng.sample(LEGEND_WORDS, n_leg)
    if rng.random() < 0.08:
        legends[rng.randrange(n_leg)] = ""
    n_hash = rng.randint(0, 13)
    n_rows = rng.choice([1, 2, 3, 10, 50, 200, 2000]) if rng.random() < 0.8 else rng.randint(1, 300)
    style = rng.choice(["f6", "g", "repr"])
    lines = [f"# comment line {i} with \"quotes\" and @ signs" if i % 3 == 0 else f"#   gmx energy -f ener.edr {i}" for i in range(n_hash)]
    at_before = ['@    title "GROMACS Energies"', '@    xaxis  label "Time (ps)"', '@    yaxis  label "(kJ/mol)"', "@TYPE xy",
                 "@ view 0.15, 0.15, 0.75, 0.85", "@ legend on", "@ legend box on", "@ legend loctype view",
                 "@ legend 0.78, 0.8", "@ legend length 2"]
    k = rng.randint(0, len(at_before))
    header_at = at_before[:k]
    leg_lines = [f'@ s{i} legend "{txt}"' for i, txt in enumerate(legends)]
    need = 13 - (n_hash + len(header_at) + len(leg_lines))
    filler = [f"@ filler {i}" for i in range(max(0, need) + rng.randint(0, 3))]
    cut = rng.randint(0, len(filler))
    lines += header_at + filler[:cut] + leg_lines + filler[cut:]
    assert len(lines) >= 13
    scale = rng.choice([1.0, 1e3, 1e-3, 1e6])
    vals = nprng.normal(0, scale, size=(n_rows, n_leg))
    times = np.arange(n_rows) * rng.choice([1.0, 0.5, 2.0, 10.0])
    if rng.random() < 0.2 and n_rows >= 2:
        # reruns and checkpoint seams write the same frame twice: identical data lines are still one row each
        k = rng.randrange(n_rows - 1)
        vals[k + 1] = vals[k]
        times[k + 1] = times[k]
        if rng.random() < 0.3:
            times[:] = 0.0
    truth = np.zeros((n_rows, n_leg + 1))
    width = rng.choice([0, 12, 16])
    for r in range(n_rows):
        toks = [fmt_value(rng, times[r], "f6")] + [fmt_value(rng, v, style) for v in vals[r]]
        truth[r] = [float(x) for x in toks]
        if width:
            lines.append("".join(" " + x.rjust(width) for x in toks))
        else:
            lines.append(rng.choice([" ", "\t", "  "]).join(toks))
    with open(path, "w") as f:
        # files copied out of editors or cut by head/tail end without a newline after the last data line
        f.write("\n".join(lines) + ("\n" if rng.random() < 0.8 else ""))
    TABLES[os.path.abspath(path)] = {"columns": ["Time [ps]"] + legends, "values": truth}
    return legends, n_rows, n_hash, style


def run_energy(io, spec):
    rng = random.Random(spec["rseed"])
    nprng = np.random.default_rng(spec["rseed"])
    d = tempfile.mkdtemp(prefix="verif_c20e_")
    try:
        for it in range(spec["count"]):
            path = os.path.join(d, f"energy_{it % 5}.xvg")  # names are re-used
            legends, n_rows, n_hash, style = make_xvg(rng, nprng, path)
            REC.begin_case({"kind": "xvg", "legends": legends, "rows": n_rows, "hash_lines": n_hash, "style": style,
                            "text_head": open(path).read()[:1500] if it < 2 else None},
                           cls=[f"legends={len(legends)}", f"hash_lines={n_hash}", f"style={style}"], sample=(it == 1))
            try:
                er = io.EnergyReader(path)
                df = er.load_energy()
                for name in ([legends[0], legends[-1]] if len(legends) > 1 else legends):
                    col = er.load_single_energy_column(name)
                    if it % 2 == 0:
                        # hostile caller: shifts the returned column in place (as one does to plot energies relative to the minimum),
                        # then asks the same reader object again - the second answer is judged by the same monitor
                        try:
                            col -= 1.5
                        except Exception:
                            pass
                        er.load_single_energy_column(name)
                        er.load_energy()
                if len(legends) >= 2 or n_rows >= 2:
                    REC.nontrivial_case(("xvg", open(path, "rb").read()[:4000].hex()[:64], n_rows, len(legends)))
                # csv round trip of the loaded frame (an empty column name has no csv representation in pandas: not judged)
                if "" in legends:
                    REC.skip("C20.energy_table", "csv round trip with an empty legend (pandas renames it 'Unnamed: k')")
                    continue
                cpath = os.path.join(d, f"energy_{it % 5}.csv")
                df.to_csv(cpath)
                t = TABLES[os.path.abspath(path)]
                TABLES[os.path.abspath(cpath)] = {"columns": [str(c) for c in df.columns],
                                                  "values": df.to_numpy(dtype=float), "index": list(df.index)}
                er2 = io.EnergyReader(cpath)
                df2 = er2.load_energy()
                er2.load_single_energy_column(legends[-1])
            except Exception as e:
                REC.crashed("C20.call_raised", e)
    finally:
        shutil.rmtree(d, ignore_errors=True)


def shards(tier, seed):
    if tier == "quick":
        return [{"kind": "grids", "rseed": seed * 1000 + i, "count": 5} for i in range(4)] + \
               [{"kind": "energy", "rseed": seed * 1000 + 100 + i, "count": 75} for i in range(4)]
    return [{"kind": "grids", "rseed": seed * 1000 + i, "count": 25} for i in range(16)] + \
           [{"kind": "energy", "rseed": seed * 1000 + 100 + i, "count": 1000} for i in range(16)]


def run_shard(spec):
    io = install()
    (run_grids if spec["kind"] == "grids" else run_energy)(io, spec)


def replay(case):
    io = install()
    if case.get("kind") != "grid":
        raise RuntimeError("energy files are regenerated from the seed: re-run the tier with the same VERIF_SEED")
    d = tempfile.mkdtemp(prefix="verif_c20_")
    try:
        write_and_read(io, (case["b"], case["o"], case["t"], case["factor"], case["cartesian"]), d)
    finally:
        shutil.rmtree(d, ignore_errors=True)
