"""C07 - every generated sphere grid is N distinct unit points; rotations are unique.

Monitors: postconditions on the real SphereGrid3DFactory.create / SphereGrid4DFactory.create (every grid any workload builds).
"""
import numpy as np

from vlib import attach
from vlib.rec import REC

ID = "C07"
LEVEL = "exploration"
DECIDING = ["C07.grid3d", "C07.grid4d"]
RULE = ("every (algorithm, N): ico, cube3D, randomS for N in 1..60 plus level edges (quick) / every N in 1..700 (thorough); cube4D, randomQ for "
        "N in 1..40 plus 41..43 (quick) / every N in 1..140 plus 271..273 (thorough); fulldiv 8, 40 (quick) + 272 (thorough) and its rejected "
        "sizes; zero grids and N=1 requested by name; the selection function under hostile inputs; grids re-judged after the package's own consumers (FullGrid.get_body_rotations etc.) have used them. Non-trivial = N>=2; distinct by (algorithm, N)")
ASSUMPTIONS = ["unit norm to 1e-9, distinctness = chord > 1e-9", "fulldiv_2080 (level-3 hypercube) is beyond the exploration bound and not run"]
EXHAUSTIVE = {"quick": False, "thorough": False}
MIN_NONTRIVIAL = {"quick": 200, "thorough": 2000}
SHARD_TIMEOUT = {"quick": 900, "thorough": 10800}


def _min_chord(G, also_antipodal=False):
    if len(G) < 2:
        return np.inf
    best = np.inf
    for s in range(0, len(G), 512):
        blk = G[s:s + 512]
        d2 = np.maximum(0, 2 - 2 * blk @ G.T)
        if also_antipodal:
            d2 = np.minimum(d2, np.maximum(0, 2 + 2 * blk @ G.T))
        idx = np.arange(len(blk))
        d2[idx, s + idx] = np.inf
        best = min(best, float(d2.min()))
    return float(np.sqrt(best))


def canonical(q):
    for x in q:
        if abs(x) > 1e-9:
            return x > 0
    return False


def grid3d_is_N_distinct_unit_points(alg_name, N, result):
    mon = "C07.grid3d"
    try:
        G = np.asarray(result.get_grid_as_array(), dtype=float)
        wantN = 1 if alg_name == "zero3D" else N
        problems = []
        if G.shape != (wantN, 3):
            problems.append(f"shape {G.shape} != {(wantN, 3)}")
        else:
            if not np.allclose(np.linalg.norm(G, axis=1), 1.0, rtol=0, atol=1e-9):
                problems.append("rows not of unit norm")
            mc = _min_chord(G)
            if mc <= 1e-9:
                problems.append("two rows coincide")
            if alg_name in ("ico", "cube3D") and wantN >= 2 and mc < 1 / np.sqrt(wantN):
                problems.append({"min_chord": mc, "bound_1_over_sqrt_N": 1 / np.sqrt(wantN)})
            if result.get_N() != wantN or len(result) != wantN:
                problems.append("get_N()/len() disagree with the array")
            if alg_name == "zero3D" and not np.array_equal(G, np.array([[0.0, 0.0, 1.0]])):
                problems.append({"zero grid is not the z direction": G})
        if problems:
            REC.fail(mon, {"alg": alg_name, "N": N, "problems": problems})
        else:
            REC.ok(mon)
    except Exception as e:
        REC.crashed("C07.oracle_error", e)
    return True


def grid4d_is_N_unique_rotations(alg_name, N, result):
    mon = "C07.grid4d"
    try:
        G = np.asarray(result.get_grid_as_array(only_upper=True), dtype=float)
        G_default = np.asarray(result.get_grid_as_array(), dtype=float)
        F = np.asarray(result.get_grid_as_array(only_upper=False), dtype=float)
        wantN = 1 if alg_name == "zero4D" else N
        problems = []
        if G.shape != (wantN, 4):
            problems.append(f"shape {G.shape} != {(wantN, 4)}")
        else:
            if not np.array_equal(G, G_default):
                problems.append("default getter differs from only_upper=True")
            # the other spellings of the flag a caller may hand over (numpy bool, 0/1, result of a numpy comparison)
            for flag, want in ((np.True_, G), (1, G), (np.float64(N) > -1, G), (np.False_, F), (0, F)):
                got = np.asarray(result.get_grid_as_array(only_upper=flag), dtype=float)
                if got.shape != want.shape or got.tobytes() != want.tobytes():
                    problems.append(f"only_upper={flag!r} ({type(flag).__name__}) gives shape {got.shape}, the bool of the same truth value {want.shape}")
            if not np.allclose(np.linalg.norm(G, axis=1), 1.0, rtol=0, atol=1e-9):
                problems.append("rows not of unit norm")
            if not all(canonical(q) for q in G):
                problems.append("row outside the canonical half (first non-zero coordinate positive)")
            mc = _min_chord(G, also_antipodal=True)
            if mc <= 1e-9:
                problems.append("two rows represent the same rotation")
            if alg_name in ("cube4D", "fulldiv") and wantN >= 2 and mc < 0.6 / np.cbrt(wantN):
                problems.append({"min_chord": mc, "bound_0.6_over_cbrt_N": 0.6 / np.cbrt(wantN)})
            if F.shape != (2 * wantN, 4) or F[:wantN].tobytes() != G.tobytes() or F[wantN:].tobytes() != (-G).tobytes():
                problems.append("double cover is not [G; -G] bit-exactly")
            if result.get_N() != wantN:
                problems.append(f"get_N() = {result.get_N()}")
            if alg_name == "zero4D" and not np.array_equal(G, np.array([[0.0, 0.0, 0.0, 1.0]])):
                problems.append({"zero grid is not the identity rotation": G})
        if problems:
            REC.fail(mon, {"alg": alg_name, "N": N, "problems": problems})
        else:
            REC.ok(mon)
    except Exception as e:
        REC.crashed("C07.oracle_error", e)
    return True


def hemisphere_set_is_canonical(quaternions, upper, result):
    """the selection step behind the random rotation grids: every output row is +-the input row and lies in the requested half"""
    mon = "C07.hemisphere_selection"
    try:
        Q = np.asarray(quaternions, dtype=float)
        R = np.asarray(result, dtype=float)
        ok = R.shape == Q.shape
        if ok:
            same = np.all(R == Q, axis=1) | np.all(R == -Q, axis=1)
            can = np.array([canonical(r) for r in R])
            # the package treats |x| <= 1e-8 as zero, the statement says "first non-zero coordinate": leading coordinates with a
            # magnitude between 1e-12 and 1e-6 are in the unspecified band and such rows are not judged
            band = np.any((np.abs(Q) > 1e-12) & (np.abs(Q) < 1e-6), axis=1)
            zero = np.all(np.abs(Q) <= 1e-9, axis=1)
            ok = bool(np.all(same) and np.all((can == bool(upper)) | zero | band))
            REC.notes["C07 hemisphere rows in the unspecified zero band"] += int(band.sum())
        REC.check(mon, ok, lambda: {"upper": upper, "first_bad_row": Q[int(np.argmin(same & (can == bool(upper))))] if R.shape == Q.shape else None})
    except Exception as e:
        REC.crashed("C07.oracle_error", e)
    return True


def upper_test_is_first_nonzero_positive(q, result):
    """the predicate behind get_upper_indices, the Voronoi half selection and the polytope half: true exactly when the first
    non-zero coordinate is positive (same unspecified band as above)"""
    mon = "C07.upper_predicate"
    try:
        v = np.asarray(q, dtype=float)
        if v.ndim != 1 or np.any((np.abs(v) > 1e-12) & (np.abs(v) < 1e-6)):
            REC.skip(mon, "coordinate in the unspecified zero band")
            return True
        REC.check(mon, bool(result) == canonical(v), lambda: {"q": v, "returned": bool(result)})
    except Exception as e:
        REC.crashed("C07.oracle_error", e)
    return True


def drive_upper_predicate(n, seed):
    """hostile inputs for the predicate: leading coordinates that are small (1e-6..1e-1) against the later ones, of either sign, or
    exactly zero; 3- and 4-vectors"""
    import molgri.space.utils as U
    rng = np.random.default_rng(seed + 77)
    REC.begin_case({"kind": "upper predicate", "n": n}, cls="upper predicate")
    for it in range(n):
        d = 4 if it % 3 else 3
        v = rng.normal(size=d)
        k = int(rng.integers(0, d))
        for c in range(k):
            v[c] = 0.0 if rng.random() < 0.4 else v[c] * 10.0 ** rng.uniform(-5.9, -1)
        v /= np.linalg.norm(v)
        try:
            U.q_in_upper_sphere(v)
            U.q_in_upper_sphere(-v)
        except Exception as e:
            REC.crashed("C07.call_raised", e)
    REC.nontrivial_case(("upper predicate", seed))


def drive_hemisphere(n_batches, seed):
    """hostile inputs for the selection: leading coordinates that are tiny, zero, or of opposite sign to the next one"""
    import molgri.space.utils as U
    rng = np.random.default_rng(seed)
    for b in range(n_batches):
        Q = rng.normal(size=(400, 4))
        k = rng.integers(0, 4, size=400)
        scale = 10.0 ** rng.uniform(-6, 0, size=400)
        for c in range(3):
            Q[:, c] = np.where(k > c, Q[:, c] * scale * (rng.random(400) < 0.7), Q[:, c])   # tiny or exactly zero leading coordinates
        Q /= np.linalg.norm(Q, axis=1, keepdims=True)
        REC.begin_case({"kind": "hemisphere selection", "batch": b}, cls="hemisphere selection")
        for upper in (True, False):
            try:
                U.hemisphere_quaternion_set(Q.copy(), upper=upper)
            except Exception as e:
                REC.crashed("C07.call_raised", e)
        REC.nontrivial_case(("hemisphere", seed, b))


def drive_consumers():
    """history: the package's own consumers of a rotation grid (FullGrid.get_body_rotations, the full-grid array, the Voronoi getters)
    run first, then the same predicates are evaluated again on the live grid object"""
    from molgri.space.fullgrid import FullGrid
    for b in ("cube4D_8", "randomQ_9", "fulldiv_8", "5", "cube4D_13"):
        REC.begin_case({"kind": "grid after its consumers", "b": b}, cls="grid after its consumers")
        try:
            fg = FullGrid(b, "4", "[0.1, 0.2]")
            fg.get_body_rotations()
            fg.get_full_grid_as_array()
            fg.get_adjacency_of_orientation_grid()
            fg.b_rotations.get_spherical_voronoi().get_voronoi_volumes()
            grid4d_is_N_unique_rotations(fg.b_rotations.algorithm_name, fg.b_rotations.N, fg.b_rotations)
            grid3d_is_N_distinct_unit_points(fg.get_position_grid().get_o_grid().algorithm_name, fg.get_position_grid().get_o_grid().N,
                                             fg.get_position_grid().get_o_grid())
            REC.nontrivial_case(("consumers", b))
        except Exception as e:
            REC.crashed("C07.call_raised", e)


def drive_single_shell_consumers():
    """history: a position grid with ONE radial shell (radius != 1 A) is built and assembled on top of a direction grid; afterwards the
    direction grid object must still hold unit vectors"""
    from molgri.space.fullgrid import FullGrid, PositionGrid
    for o, t in (("ico_12", "[0.3]"), ("cube3D_9", "0.25"), ("randomS_7", "[1.7]"), ("ico_5", "[0.05]")):
        REC.begin_case({"kind": "direction grid after a single-shell position grid", "o": o, "t": t}, cls="grid after its consumers")
        try:
            fg = FullGrid("4", o, t)
            fg.get_full_grid_as_array(); fg.get_position_grid().get_position_grid_as_array(); fg.get_full_adjacency()
            og = fg.get_position_grid().get_o_grid()
            grid3d_is_N_distinct_unit_points(og.algorithm_name, og.N, og)
            pg = PositionGrid(o_grid_name=o, t_grid_name=t)
            pg.get_position_grid_as_array(); pg.get_position_grid_as_array()
            grid3d_is_N_distinct_unit_points(pg.get_o_grid().algorithm_name, pg.get_o_grid().N, pg.get_o_grid())
            REC.nontrivial_case(("single shell", o, t))
        except Exception as e:
            REC.crashed("C07.call_raised", e)


def drive_churn(F3, F4, seed, rounds):
    """object churn: direction grids with 2N points are built, asked for their upper half, and dropped; right afterwards a rotation grid
    with N rotations (whose double cover also has 2N rows) is built on memory the allocator has just got back. Anything remembered under
    the address of a freed object surfaces here (CPython reuses such addresses within a few allocations)."""
    import gc
    import random
    rng = random.Random(seed)
    for _ in range(rounds):
        N = rng.randint(4, 14)
        a3, a4 = rng.choice(["ico", "cube3D", "randomS"]), rng.choice(["cube4D", "randomQ"])
        REC.begin_case({"kind": "churn", "N": N, "alg3": a3, "alg4": a4}, cls="object churn")
        try:
            for _ in range(rng.randint(1, 3)):
                g3 = F3.create(alg_name=a3, N=2 * N)
                g3.get_grid_as_array(only_upper=True)
                g3.get_upper_indices()
                del g3
            if rng.random() < 0.5:
                gc.collect()
            F4.create(alg_name=a4, N=N)
            REC.nontrivial_case(("churn", N, a3, a4))
        except Exception as e:
            REC.crashed("C07.call_raised", e)


def install():
    import molgri.space.utils as U
    attach.ensure(U, "hemisphere_quaternion_set", hemisphere_set_is_canonical)
    attach.ensure(U, "q_in_upper_sphere", upper_test_is_first_nonzero_positive)
    from molgri.space.rotobj import SphereGrid3DFactory, SphereGrid4DFactory
    attach.ensure(SphereGrid3DFactory, "create", grid3d_is_N_distinct_unit_points)
    attach.ensure(SphereGrid4DFactory, "create", grid4d_is_N_unique_rotations)
    return SphereGrid3DFactory, SphereGrid4DFactory


def drive(F3, F4, alg, N):
    REC.begin_case({"alg": alg, "N": N}, cls=f"alg={alg}", sample=(N == 7))
    F = F3 if alg in ("ico", "cube3D", "randomS", "zero3D") else F4
    try:
        F.create(alg_name=alg, N=N)
        if N >= 2:
            REC.nontrivial_case((alg, N))
    except ValueError as e:
        if alg == "fulldiv" and N not in (8, 40, 272, 2080):
            REC.ok("C07.fulldiv_documented_rejection")
        else:
            REC.crashed("C07.call_raised", e)
    except Exception as e:
        REC.crashed("C07.call_raised", e)


def by_name(F3, F4):
    from molgri.naming import GridNameParser
    for role, names in (("o", ["1", "ico_1", "cube3D_1", "randomS_1", "zero", "zero3D", "zero3D_1"]),
                        ("b", ["1", "cube4D_1", "randomQ_1", "fulldiv_1", "zero", "zero4D", "zero4D_1"])):
        for nm in names:
            REC.begin_case({"name": nm, "role": role}, cls="N=1 by name")
            try:
                p = GridNameParser(nm, role)
                g = (F3 if role == "o" else F4).create(alg_name=p.get_alg(), N=p.get_N())
                arr = g.get_grid_as_array()
                want = np.array([[0.0, 0.0, 1.0]]) if role == "o" else np.array([[0.0, 0.0, 0.0, 1.0]])
                REC.check("C07.N1_by_name", np.array_equal(arr, want), {"name": nm, "role": role, "grid": arr})
            except Exception as e:
                REC.crashed("C07.call_raised", e)


def shards(tier, seed):
    if tier == "quick":
        n3 = list(range(1, 61)) + [92, 98, 99, 162, 163, 386, 387]
        n4 = list(range(1, 41)) + [41, 42, 43]
        full = [8, 40, 12, 1, 41]
        nsh = 16
    else:
        n3 = list(range(1, 701))
        n4 = list(range(1, 141)) + [271, 272, 273]
        full = [8, 40, 272, 12, 1, 41, 100]
        nsh = 64
    jobs = [(a, N, N ** 2 + 500) for a in ("ico", "cube3D", "randomS") for N in n3]
    jobs += [(a, N, 40 * N ** 2 + 20000) for a in ("cube4D", "randomQ") for N in n4]
    jobs += [("fulldiv", N, 40 * N ** 2 + 20000) for N in full]
    jobs += [("zero3D", 1, 500), ("zero4D", 1, 500), ("zero3D", 5, 500), ("zero4D", 5, 500)]
    jobs.sort(key=lambda t: -t[2])
    buckets = [[] for _ in range(nsh)]
    load = [0] * nsh
    for a, N, c in jobs:
        k = load.index(min(load))
        buckets[k].append([a, N])
        load[k] += c
    out = [{"jobs": b} for b in buckets if b]
    out[-1]["by_name"] = True
    out += [{"jobs": [], "churn": 40 if tier == "quick" else 150, "rseed": seed * 100 + i} for i in range(2 if tier == "quick" else 8)]
    return out


def run_shard(spec):
    F3, F4 = install()
    for alg, N in spec["jobs"]:
        drive(F3, F4, alg, N)
    if spec.get("by_name"):
        by_name(F3, F4)
        drive_hemisphere(10 if spec["tier"] == "quick" else 100, spec.get("seed", 0))
        drive_upper_predicate(4000 if spec["tier"] == "quick" else 40000, spec.get("seed", 0))
        drive_consumers()
        drive_single_shell_consumers()
    if spec.get("churn"):
        drive_churn(F3, F4, spec["rseed"], spec["churn"])


def replay(case):
    F3, F4 = install()
    if "alg" in case:
        drive(F3, F4, case["alg"], case["N"])
    else:
        by_name(F3, F4)
