"""C14 - saved grid geometry gives a rate matrix stationary at Boltzmann x volume.

End-to-end pipeline monitor.  The driver executes the LITERAL `run:` bodies of rule run_grid (workflow/run_grid) and of rules run_sqra and
run_decomposition (workflow/run_sqra) with stub params/input/output namespaces, so a workflow edit (files swapped, arguments reordered)
is executed and observed.  Every stage carries its own monitors (C20 persistence, C01 rate matrix, C02/C09 grid) plus the pipeline
postconditions: detailed balance w.r.t. V_i exp(-E_i/RT) on the loaded arrays in grid order, off-diagonal pattern = saved adjacency,
and (postcondition on DecompositionTool.get_decomposition) real, descending eigenvalues that agree with a dense eigen-solver, top
eigenvalue 0 and left eigenvector proportional to V exp(-E/RT) for settings that target the top of the spectrum.
"""
import os
import random
import re
import shutil
import tempfile
import textwrap
import types

import numpy as np
from scipy import sparse
from scipy.constants import k as kB, N_A

from vlib import attach
from vlib.rec import REC

ID = "C14"
LEVEL = "exploration"
DECIDING = ["C14.detailed_balance", "C14.pattern_is_saved_adjacency", "C14.decomposition", "C14.saved_spectrum"]
RULE = ("pipelines = (grid spec: rotation algorithm x n_b in {1,4,5,8}, direction algorithm x n_o in {4,7,12,13}, 2-3 unequal radii, factor in "
        "{0.5,1,2,1500,0.01}, both position modes (Cartesian only for direction sets that surround the origin); energies uniform +-20 kJ/mol around 0, -4e5 or +1e4 kJ/mol, optionally with a 430 kJ/mol deep well or a 350 kJ/mol-per-shell ramp (range above, neighbour differences below the cap), written to a "
        "generated xvg file; T in [200,400] K; solver settings (sigma None,'LR'), (small positive sigma,'LM'), the workflow's own rule with its "
        "k=12, k in {3,6}, tol 1e-5 and 1e-10; for half of the pipelines one DecompositionTool object serves all settings in random order). Non-trivial = connected grid with >=14 cells, both neighbour families; distinct by pipeline digest")
ASSUMPTIONS = ["the zero spectral shift shipped as SQRA default is excluded by the statement (singular shift-invert)",
               "eigenvalues compared with numpy.linalg.eigvals at 10*tol*rho(Q) (+1e-9*rho); the stationary vector is judged only when the spectral gap exceeds 1000x that resolution, at 100*tol*rho/gap of its largest entry",
               "ArpackNoConvergence is a solver limit: counted as skipped", "workflow rule bodies are executed by exec() with stub namespaces (no "
               "snakemake start-up); if extraction fails the driver calls the same library functions directly and says so in the evidence"]
EXHAUSTIVE = {"quick": False, "thorough": False}
MIN_NONTRIVIAL = {"quick": 8, "thorough": 80}
SHARD_TIMEOUT = {"quick": 1500, "thorough": 7200}
R_GAS = kB * N_A

CTX = {}   # id(rate matrix) / path -> context registered by the driver


# --------------------------------------------------------------------------------------- workflow extraction
def rule_body(path, rule):
    src = open(path).read().splitlines()
    start = None
    for i, line in enumerate(src):
        if re.match(rf"rule {rule}\s*:", line):
            start = i
            break
    if start is None:
        raise RuntimeError(f"rule {rule} not found in {path}")
    run = None
    for i in range(start + 1, len(src)):
        if re.match(r"rule \w+\s*:", src[i]):
            break
        if re.match(r"\s+run\s*:\s*$", src[i]):
            run = i
            break
    if run is None:
        raise RuntimeError(f"rule {rule} has no run: block")
    ind = len(src[run]) - len(src[run].lstrip())
    body = []
    for line in src[run + 1:]:
        if line.strip() and (len(line) - len(line.lstrip())) <= ind:
            break
        body.append(line)
    return textwrap.dedent("\n".join(body))


def ns(**kw):
    return types.SimpleNamespace(**kw)


# --------------------------------------------------------------------------------------- decomposition monitor
RERUN = {"active": False}


def tool_remembers_its_matrix(self, matrix_to_decompose):
    """snapshot at construction: the matrix the tool was given is the one every later request is about"""
    try:
        M = self.matrix_to_decompose
        if M.shape[0] <= 1500:
            self._verif_M0 = np.array(M.todense() if sparse.issparse(M) else M, dtype=float)
    except Exception as e:
        REC.crashed("C14.oracle_error", e)
    return True


def decomposition_agrees_with_dense_solver(self, tol, maxiter, which, sigma, k, result):
    mon = "C14.decomposition"
    if RERUN["active"]:
        return True       # a repetition issued by this monitor itself
    try:
        M = self.matrix_to_decompose
        Md = np.asarray(M.todense() if sparse.issparse(M) else M, dtype=float)
        M0 = getattr(self, "_verif_M0", None)
        if M0 is not None:
            # the reference spectrum is that of the matrix the tool was constructed with; a request (also an earlier, failed one) must
            # not leave the caller's matrix changed
            if M0.shape != Md.shape or not np.array_equal(M0, Md):
                REC.fail("C14.decomposition_input_untouched", {"problem": "the matrix held by the tool differs from the one it was constructed with",
                                                                "max_abs_change": float(np.abs(M0 - Md).max()) if M0.shape == Md.shape else None,
                                                                "which": which, "sigma": sigma})
            else:
                REC.ok("C14.decomposition_input_untouched")
            Md = M0
        n = Md.shape[0]
        if n > 1500:
            REC.skip(mon, "matrix too large for the dense reference")
            return True
        if sigma is not None and float(sigma) == 0.0:
            REC.skip(mon, "sigma = 0 is excluded by the statement")
            return True
        vals, vecs = result
        vals = np.asarray(vals)
        dense = np.linalg.eigvals(Md)
        rho = np.abs(dense).max()
        if sigma is not None and np.min(np.abs(dense - float(sigma))) < 1e-6 * max(1.0, rho):
            REC.skip(mon, "sigma is itself an eigenvalue (excluded by the statement)")
            return True
        etol = 10 * float(tol) * rho + 1e-9 * rho
        problems = []
        if np.iscomplexobj(vals) and np.abs(vals.imag).max() > etol:
            problems.append("complex eigenvalues returned")
        vals = vals.real
        if len(vals) != k:
            problems.append(f"{len(vals)} eigenvalues for k={k}")
        if np.any(np.diff(vals) > etol):
            problems.append({"not_descending": vals})
        miss = unmatched(vals, dense, etol)
        if miss:
            problems.append({"not_matched_one_to_one_in_dense_spectrum": miss[:3], "tolerance": etol})
        elif not RERUN["active"]:
            sel = selection_problem(vals, dense, which, sigma, etol, rho)
            if sel is not None:
                # ARPACK starts from a random vector and may, once in a while, stop on a converged set of Ritz values that are not the
                # extremal ones (small matrices, k close to the Krylov dimension, loose tolerance). A defect in the package reproduces:
                # the same request is repeated twice on fresh tools and only counts if the selection is wrong every time
                from molgri.molecules import transitions
                repeats = []
                RERUN["active"] = True
                try:
                    for _ in range(2):
                        try:
                            v2, _w = transitions.DecompositionTool(sparse.csr_array(Md)).get_decomposition(tol=tol, maxiter=maxiter, which=which, sigma=sigma, k=k)
                            repeats.append(selection_problem(np.asarray(v2).real, dense, which, sigma, etol, rho))
                        except Exception:
                            repeats.append("raised")
                finally:
                    RERUN["active"] = False
                if all(r is not None for r in repeats):
                    problems.append(sel)
                else:
                    REC.notes["C14 ARPACK returned converged but non-extremal eigenvalues once; not reproduced on repetition (not judged)"] += 1
        ctx = CTX.get(id(M)) or CTX.get("last_rate_matrix")
        top_targeted = (sigma is None and which == "LR") or (sigma is not None and which == "LM" and float(sigma) > 0)
        if top_targeted and ctx is not None and ctx.get("connected") and ctx["Q"].shape == Md.shape and np.array_equal(ctx["Q"], Md):
            top = np.sort(dense.real)[::-1]
            if sigma is not None and not (0 < float(sigma) < abs(top[1]) / 2):
                pass  # shift not below half the spectral gap: top not necessarily targeted
            else:
                if abs(vals[0]) > etol:
                    problems.append({"largest_eigenvalue": vals[0], "expected": 0.0, "tolerance": etol})
                pi = ctx["pi"] / ctx["pi"].sum()
                v0 = np.asarray(vecs)[:, 0].real
                gap = abs(top[1])
                # ARPACK resolves eigenvalues to ~tol*rho: the top eigenvector is only determined if the spectral gap is far above that,
                # and then to about tol*rho/gap relative to its norm
                if gap < 1000 * etol:
                    REC.skip("C14.stationary_vector", "spectral gap not resolved at this solver tolerance")
                elif abs(v0.sum()) < 1e-300:
                    problems.append("first eigenvector sums to zero")
                else:
                    v0 = v0 / v0.sum()
                    err = np.max(np.abs(v0 - pi)) / pi.max()
                    bound = 100 * float(tol) * rho / gap + 1e-6
                    if err > bound:
                        problems.append({"left_eigenvector_vs_V_exp(-E/RT)_max_err_over_max": float(err), "bound": bound})
                    else:
                        REC.ok("C14.stationary_vector")
        if problems and not RERUN["active"] and not RERUN.get("nested") and M0 is not None:
            # ARPACK starts from a random vector: whatever is reported here must reproduce. The same request is repeated twice on fresh
            # tools holding a copy of the construction-time matrix; a repetition that passes all clauses makes this a solver fluke
            from molgri.molecules import transitions as _tr
            clean = 0
            for _ in range(2):
                RERUN["nested"] = True
                before = REC.monitors[mon]["fail"]
                try:
                    t2 = _tr.DecompositionTool(sparse.csr_array(M0))
                    CTX[id(t2.matrix_to_decompose)] = CTX.get(id(M)) or CTX.get("last_rate_matrix")
                    saved = (REC.violations[:], REC.violation_count, {k_: dict(v_) for k_, v_ in REC.monitors.items()})
                    t2.get_decomposition(tol=tol, maxiter=maxiter, which=which, sigma=sigma, k=k)
                    if REC.monitors[mon]["fail"] == before:
                        clean += 1
                    # the repetition is bookkeeping of this monitor, not an observation of its own: restore the counters
                    REC.violations[:] = saved[0]
                    REC.violation_count = saved[1]
                    for k_, v_ in saved[2].items():
                        REC.monitors[k_].update(v_)
                except Exception:
                    pass
                finally:
                    RERUN["nested"] = False
            if clean:
                REC.notes["C14 a decomposition disagreement was not reproduced when the same request was repeated (solver fluke, not judged)"] += 1
                problems = []
        if problems:
            mech = None
            if sigma is None and which == "SM" and len(problems) == 1 and isinstance(problems[0], dict) \
                    and all(abs(v) <= etol for v in problems[0].get("selected_by_the_rule_but_not_returned", [1e300])):
                # known finding F19: without a shift ARPACK cannot find the eigenvalue zero of a singular generator (its start vector is
                # forced into the range of the operator); the repair F15 covers 'LR'/'SR' only, 'SM' has no order-preserving real shift
                mech = "sm_without_shift_misses_eigenvalue_zero"
            REC.fail(mon, {"n": n, "tol": tol, "which": which, "sigma": sigma, "k": k, "problems": problems[:4]}, mechanism=mech)
        else:
            REC.ok(mon)
    except Exception as e:
        REC.crashed("C14.oracle_error", e)
    return True


def install():
    from molgri.molecules import transitions
    attach.ensure(transitions.DecompositionTool, "__init__", tool_remembers_its_matrix)
    attach.ensure(transitions.DecompositionTool, "get_decomposition", decomposition_agrees_with_dense_solver)
    from vlib.props import c01, c20, c02, c09, c16, c13
    c01.install(); c20.install(); c02.install(); c09.install(); c16.install(); c13.install()
    from vlib import geom3, geom4
    geom3.install()
    geom4.install(max_n=13)
    return transitions


# --------------------------------------------------------------------------------------- pipeline driver
def write_energy(path, energies, rng):
    lines = [f"# line {i}" for i in range(rng.randint(0, 8))]
    lines += ['@    title "GROMACS Energies"', '@    xaxis  label "Time (ps)"', "@TYPE xy", "@ view 0.15, 0.15, 0.75, 0.85", "@ legend on",
              "@ legend box on", "@ legend loctype view", "@ legend 0.78, 0.8", "@ legend length 2"]
    lines += ['@ s0 legend "LJ (SR)"', '@ s1 legend "Potential"', '@ s2 legend "Coulomb (SR)"']
    while len(lines) < 13:
        lines.insert(len(lines) - 3, "@ filler")
    for i, e in enumerate(energies):
        lines.append("%12.6f  %r  %r  %r" % (float(i), float(e) * 0.5, float(e), float(e) * 0.25))
    open(path, "w").write("\n".join(lines) + "\n")


def check_workflow_files(paths, b, o, t, f, cart):
    """C02 observes 'files written by workflow/run_grid': every file must hold exactly what the corresponding getter of a fresh FullGrid
    with the same specification returns (bitwise; getter purity is C08) - a rule that stores one quantity under another's name is caught here"""
    from molgri.space.fullgrid import FullGrid
    from vlib.props.c08 import dg
    fg = FullGrid(b, o, t, factor=f, position_grid_cartesian=cart)
    want = {"full_array": lambda: fg.get_full_grid_as_array(), "volumes": lambda: np.asarray(fg.get_total_volumes()),
            "borders_array": lambda: fg.get_full_borders(), "distances_array": lambda: fg.get_full_distances(),
            "adjacency_array": lambda: fg.get_full_adjacency()}
    for key, getter in want.items():
        if not os.path.exists(paths[key]):
            REC.fail("C02.workflow_files", {"file": key, "problem": "not written"})
            continue
        got = np.load(paths[key]) if paths[key].endswith(".npy") else sparse.load_npz(paths[key])
        REC.check("C02.workflow_files", dg(got) == dg(getter()), {"file": os.path.basename(paths[key]), "spec": [b, o, t, f, cart],
                                                                   "problem": "content differs from the FullGrid getter of that name"})


def pipeline(spec, rng, nprng, d, repo):
    import molgri.io as io
    from molgri.space.fullgrid import FullGrid
    from molgri.molecules import transitions
    b, o, t, f, cart = spec["b"], spec["o"], spec["t"], spec["factor"], spec["cartesian"]
    T = spec["T"]
    paths = {k: os.path.join(d, v) for k, v in dict(full_array="full_array.npy", adjacency_array="adjacency_array.npz",
             adjacency_only_position="adjacency_array_position.npz", adjacency_only_orientation="adjacency_array_orientation.npz",
             distances_array="distances_array.npz", borders_array="borders_array.npz", volumes="volumes.npy").items()}
    route = spec["route"]
    fallback = False
    # ---- stage 1: grid -> files -------------------------------------------------------------------------
    if route == "workflow":
        try:
            body = rule_body(os.path.join(repo, "workflow", "run_grid"), "run_grid")
            g = {"np": np, "sparse": sparse, "FullGrid": FullGrid,
                 "params": ns(n_points_orientations=b, n_points_directions=o, radial_distances_nm=t, factor_orientation_to_position=float(f),
                              position_grid_cartesian=bool(cart)), "output": ns(**paths)}
            exec(compile(body, "workflow/run_grid:run_grid", "exec"), g)
            REC.classes["stage grid: literal workflow rule body"] += 1
        except RuntimeError:
            fallback = True
    if route != "workflow" or fallback:
        if fallback:
            REC.notes["workflow extraction failed: library functions called directly"] += 1
        w = io.GridWriter(b, o, t, factor=f, position_grid_cartesian=cart)
        w.save_full_grid(paths["full_array"]); w.save_volumes(paths["volumes"]); w.save_borders_array(paths["borders_array"])
        w.save_distances_array(paths["distances_array"]); w.save_adjacency_array(paths["adjacency_array"])
        REC.classes["stage grid: GridWriter"] += 1
    check_workflow_files(paths, b, o, t, f, cart)
    n = len(np.load(paths["full_array"]))
    # arbitrary per-cell energies: interaction energies around zero, or total (QM-style) energies with a huge common offset
    offset = spec.get("energy_offset", 0.0)
    spread = spec.get("energy_spread", 20.0)     # 0.5: an almost flat landscape (free diffusion; the spectrum is nearly that of the bare geometry)
    energies = offset + nprng.uniform(-spread, spread, size=n)
    if spec.get("ramp"):
        # a repulsive wall: +350 kJ/mol per shell - every neighbour difference stays below the 500 kJ/mol cap, the total range does not
        n_o_ = len(np.unique(np.round(np.load(paths["full_array"])[:, :3] / np.linalg.norm(np.load(paths["full_array"])[:, :3], axis=1, keepdims=True), 8), axis=0))
        shell = (np.arange(n) // max(1, spec["n_b"])) // max(1, n_o_)
        energies = energies + 350.0 * (shell.max() - shell)
    if spec.get("deep_well"):
        # a few cells in a deep well: neighbour differences of ~430 kJ/mol, still below the documented 500 kJ/mol cap
        k = max(1, n // 10)
        energies[nprng.choice(n, size=k, replace=False)] -= 430.0
    epath = os.path.join(d, "energy.xvg")
    write_energy(epath, energies, rng)
    # ---- stage 2: files -> rate matrix -------------------------------------------------------------------
    rate_path, il_path = os.path.join(d, "rate_matrix.npz"), os.path.join(d, "index_list.npy")
    if route == "workflow" and not fallback:
        body = rule_body(os.path.join(repo, "workflow", "run_sqra"), "run_sqra")
        g = {"np": np, "sparse": sparse,
             "params": ns(T=float(T), energy_type="Potential", m_h2o=3e-26, tau=0.01, lower_lim="None", upper_lim="None"),
             "input": ns(energy=epath, distances_array=paths["distances_array"], borders_array=paths["borders_array"], volumes=paths["volumes"]),
             "output": ns(rate_matrix=rate_path, index_list=il_path)}
        exec(compile(body, "workflow/run_sqra:run_sqra", "exec"), g)
        Q = sparse.load_npz(rate_path)
        REC.classes["stage sqra: literal workflow rule body"] += 1
    else:
        r = io.GridReader()
        V = r.load_volumes(paths["volumes"])
        S = r.load_borders_array(paths["borders_array"])
        H = r.load_distances_array(paths["distances_array"])
        E = io.EnergyReader(epath).load_single_energy_column("Potential")
        sq = transitions.SQRA(energies=E, volumes=V, distances=H, surfaces=S)
        if spec.get("shared_tool"):
            sq.get_rate_matrix(D=2 * spec["D"], T=1.5 * T)    # history: a scan over temperatures on the same loaded geometry comes first
        Q = sq.get_rate_matrix(D=spec["D"], T=T)
        Q, il = sq.cut_and_merge(Q, T=T, lower_limit=None, upper_limit=None)
        sparse.save_npz(rate_path, Q)
        REC.classes["stage sqra: library calls"] += 1
    if route == "workflow" and not fallback and spec.get("shared_tool"):
        # the same rule with cut/merge limits: the reduced matrix and the index list it SAVES must describe each other (the merge/delete
        # steps themselves are judged by the C13 monitors installed alongside)
        try:
            rp2, ip2 = os.path.join(d, "rate_matrix_limits.npz"), os.path.join(d, "index_list_limits.npy")
            body = rule_body(os.path.join(repo, "workflow", "run_sqra"), "run_sqra")
            g = {"np": np, "sparse": sparse,
                 "params": ns(T=float(T), energy_type="Potential", m_h2o=3e-26, tau=0.01, lower_lim=rng.choice(["0.5", "2.0", "None"]),
                              upper_lim=rng.choice(["3.0", "8.0"])),
                 "input": ns(energy=epath, distances_array=paths["distances_array"], borders_array=paths["borders_array"], volumes=paths["volumes"]),
                 "output": ns(rate_matrix=rp2, index_list=ip2)}
            exec(compile(body, "workflow/run_sqra:run_sqra(limits)", "exec"), g)
            Q2 = sparse.load_npz(rp2)
            il2 = np.load(ip2, allow_pickle=True)
            groups = [list(x) for x in il2.tolist()] if il2.ndim else None
            ok = groups is not None and len(groups) == Q2.shape[0] and sorted(c for gp in groups for c in gp) == sorted(set(c for gp in groups for c in gp)) \
                and all(0 <= c < n for gp in groups for c in gp)
            REC.check("C14.saved_index_list_describes_saved_matrix", ok, {"rows": Q2.shape[0], "groups": None if groups is None else len(groups), "spec": spec})
        except Exception as e:
            REC.crashed("C14.call_raised", e)
    # ---- pipeline postconditions on what was LOADED, in grid order ----------------------------------------
    V = np.load(paths["volumes"])
    A = sparse.load_npz(paths["adjacency_array"])
    Qd = np.asarray(sparse.load_npz(rate_path).todense(), dtype=float)
    problems = []
    if Qd.shape != (n, n) or len(V) != n:
        REC.fail("C14.detailed_balance", {"problem": "shapes", "Q": Qd.shape, "n": n, "spec": spec})
        return None
    logpi = np.log(V) - energies * 1000 / (R_GAS * T)
    pi = np.exp(logpi - logpi.max())
    F = pi[:, None] * Qd
    off = ~np.eye(n, dtype=bool)
    scale = np.abs(F[off]).max() if off.any() else 1.0
    asym = np.abs(F - F.T)
    denom = np.maximum(np.abs(F), np.abs(F.T))
    with np.errstate(divide="ignore", invalid="ignore"):
        rel = np.where(denom > 0, asym / denom, 0.0)
    if rel[off].size and rel[off].max() > 1e-9:
        i, j = np.unravel_index(np.argmax(rel * off), rel.shape)
        REC.fail("C14.detailed_balance", {"spec": spec, "pair": [int(i), int(j)], "pi_i*Q_ij": F[i, j], "pi_j*Q_ji": F[j, i],
                                          "relative_asymmetry": float(rel[i, j]), "rotation_indices": [int(i % max(1, spec['n_b'])), int(j % max(1, spec['n_b']))]})
    else:
        REC.ok("C14.detailed_balance")
        REC.extra.setdefault("max_rel_asymmetry", []).append(float(rel[off].max()) if rel[off].size else 0.0)
    Ad = np.asarray(A.todense()) != 0
    REC.check("C14.pattern_is_saved_adjacency", np.array_equal((Qd != 0) & off, Ad & off),
              lambda: {"spec": spec, "entries_Q": int(((Qd != 0) & off).sum()), "entries_adjacency": int((Ad & off).sum())})
    if not np.allclose(Qd.sum(axis=1), 0, atol=1e-9 * np.abs(Qd).max()):
        REC.fail("C14.detailed_balance", {"spec": spec, "problem": "rows of the generator do not sum to zero"})
    # connectivity (zero eigenvalue simple)
    from scipy.sparse.csgraph import connected_components
    ncomp = connected_components(sparse.csr_array(Ad), directed=False)[0]
    ctx = {"Q": Qd, "pi": pi, "connected": ncomp == 1}
    CTX["last_rate_matrix"] = ctx
    # ---- stage 3: decomposition ---------------------------------------------------------------------------
    dense = np.sort(np.linalg.eigvals(Qd).real)[::-1]
    gap = abs(dense[1]) if n > 1 else 1.0
    stiff = bool(spec.get("deep_well") or spec.get("ramp") or spec["factor"] not in (0.5, 1, 2))
    settings = []
    if n >= 16:
        settings.append(("workflow", dict(tol=1e-5, maxiter=100000, sigma="None", which="LR")))
        settings.append(("workflow", dict(tol=1e-5, maxiter=100000, sigma=repr(gap * rng.uniform(0.05, 0.4)), which="LM")))
    if 14 <= n <= 40 and not stiff:
        # k deep in the spectrum of a small matrix (the package default k = 12 on a 15-cell grid)
        settings.append(("direct", dict(tol=1e-10, maxiter=100000, sigma=None, which="LR", k=min(12, n - 2))))
    for kk in (3, 6):
        if n > kk + 2:
            settings.append(("direct", dict(tol=rng.choice([1e-5, 1e-10]), maxiter=100000, sigma=None, which="LR", k=kk)))
            settings.append(("direct", dict(tol=1e-10, maxiter=100000, sigma=gap * rng.uniform(0.05, 0.4), which="LM", k=kk)))
            settings.append(("direct", dict(tol=1e-8, maxiter=100000, sigma=None, which=rng.choice(["SR", "LM", "SM"]), k=kk)))
            if not stiff:
                # shift-invert with the other selection rules, the (positive) shift inside the spectral gap or far beyond it
                settings.append(("direct", dict(tol=1e-10, maxiter=100000, which=rng.choice(["SR", "LR"]), k=kk,
                                                sigma=rng.choice([gap * rng.uniform(0.05, 0.4), abs(dense[-1]) * rng.uniform(0.2, 2.0)]))))
    if stiff:
        # ARPACK needs very many iterations on stiff matrices (deep wells; rotational and translational rates differing by f^2 ~ 1e6):
        # fewer settings and a lower iteration cap keep the quick tier quick (non-convergence is counted as skipped)
        settings = [(h, dict(kw, maxiter=5000)) for h, kw in settings[:4]]
    if spec.get("failed_first") and n > 6 and not stiff:
        # history: the first request on a tool fails inside the solver (one iteration allowed); the same tool, and a new tool on the same
        # matrix object, are then asked properly - nothing of the aborted call may be left in the matrix
        try:
            M0 = sparse.load_npz(rate_path)
            CTX[id(M0)] = ctx
            tool0 = transitions.DecompositionTool(M0)
            try:
                tool0.get_decomposition(tol=1e-14, maxiter=1, which="LR", sigma=None, k=3)
                REC.classes["first decomposition request converged in one iteration"] += 1
            except Exception as e:
                REC.classes[f"first decomposition request failed: {type(e).__name__}"] += 1
            tool0.get_decomposition(tol=1e-10, maxiter=100000, which="LR", sigma=None, k=3)
            transitions.DecompositionTool(M0).get_decomposition(tol=1e-10, maxiter=100000, which="LR", sigma=None, k=4)
            CTX.pop(id(M0), None)
        except Exception as e:
            if type(e).__name__ in ("ArpackNoConvergence", "ArpackError"):
                REC.skip("C14.decomposition", "ARPACK did not converge (solver limit)")
            else:
                REC.crashed("C14.call_raised", e)
    shared_tool = None
    if spec.get("shared_tool"):
        # history: ONE DecompositionTool asked with several settings in turn (results must not depend on earlier requests)
        Ms = sparse.load_npz(rate_path)
        CTX[id(Ms)] = ctx
        shared_tool = transitions.DecompositionTool(Ms)
        rng.shuffle(settings)
    for how, kw in settings:
        try:
            if how == "workflow" and spec["route"] == "workflow" and not fallback:
                body = rule_body(os.path.join(repo, "workflow", "run_sqra"), "run_decomposition")
                g = {"np": np, "sparse": sparse, "params": ns(**kw), "input": ns(rate_matrix=rate_path),
                     "output": ns(eigenvalues=os.path.join(d, "eigenvalues.npy"), eigenvectors=os.path.join(d, "eigenvectors.npy"))}
                exec(compile(body, "workflow/run_sqra:run_decomposition", "exec"), g)
                REC.classes["stage decomposition: literal workflow rule body"] += 1
                judge_saved_spectrum(os.path.join(d, "eigenvalues.npy"), os.path.join(d, "eigenvectors.npy"), Qd, kw)
            else:
                kw2 = dict(kw)
                if isinstance(kw2["sigma"], str):
                    kw2["sigma"] = None if kw2["sigma"] == "None" else float(kw2["sigma"])
                if shared_tool is not None:
                    shared_tool.get_decomposition(**kw2)
                else:
                    M = sparse.load_npz(rate_path)
                    CTX[id(M)] = ctx
                    transitions.DecompositionTool(M).get_decomposition(**kw2)
                    CTX.pop(id(M), None)
                REC.classes["stage decomposition: library call"] += 1
        except Exception as e:
            if type(e).__name__ in ("ArpackNoConvergence", "ArpackError"):
                REC.skip("C14.decomposition", "ARPACK did not converge (solver limit)")
            else:
                REC.crashed("C14.call_raised", e)
    return ctx["connected"], n


def selection_problem(values, dense, which, sigma, etol, rho):
    """'agree with a dense eigen-solver' also means: the SAME k eigenvalues the rule selects from the dense spectrum - the k largest real
    parts for LR, smallest for SR, largest/smallest magnitude for LM/SM, and in shift-invert mode the same rules on nu = 1/(lambda - sigma)
    (LM: the k eigenvalues nearest to sigma). Returns None when the returned values cover the selected ones; members of a cluster that
    straddles the cut (or that ARPACK legitimately resolves only once) are excused."""
    lam = np.real(np.asarray(dense))
    k = len(values)
    if k == 0 or k > len(lam):
        return None
    if sigma is None:
        key = lam
    else:
        with np.errstate(divide="ignore"):
            key = 1.0 / (lam - float(sigma))
    crit = {"LR": key, "SR": -key, "LM": np.abs(key), "SM": -np.abs(key)}.get(which)
    if crit is None:
        return None
    order = np.argsort(-crit, kind="stable")
    rank = np.empty(len(lam), dtype=int)
    rank[order] = np.arange(len(lam))
    free = np.ones(len(lam), dtype=bool)
    matched = []
    for v in sorted(np.real(np.asarray(values)), reverse=True):
        cand = np.flatnonzero(free & (np.abs(lam - v) <= etol))
        if len(cand) == 0:
            return None           # not in the spectrum at all: reported by the one-to-one check
        j = cand[np.argmin(rank[cand])]
        free[j] = False
        matched.append(j)
    missing = [j for j in order[:k] if free[j]]
    cluster = max(2 * etol, 1e-6 * rho)
    unexcused = [j for j in missing if np.min(np.abs(lam[matched] - lam[j])) > cluster]
    if unexcused:
        return {"selected_by_the_rule_but_not_returned": [float(lam[j]) for j in unexcused[:3]],
                "returned_although_not_selected": [float(lam[j]) for j in matched if rank[j] >= k][:3], "which": which, "sigma": sigma}
    return None


def unmatched(values, dense, etol):
    """eigenvalues that cannot be matched one-to-one (each dense eigenvalue used at most once) within etol: a value returned twice, or
    several small eigenvalues merged into one number, is a disagreement with the dense solver even if that number is itself an eigenvalue"""
    dense = list(np.asarray(dense))
    miss = []
    for v in sorted(np.real(np.asarray(values)), reverse=True):
        if not dense:
            miss.append(float(v))
            continue
        k = int(np.argmin([abs(x - v) for x in dense]))
        if abs(dense[k] - v) <= etol:
            dense.pop(k)
        else:
            miss.append(float(v))
    return miss


def judge_saved_spectrum(path_val, path_vec, Qd, kw):
    """what the workflow keeps are the FILES written by rule run_decomposition: every saved eigenvalue must be an eigenvalue of the matrix"""
    mon = "C14.saved_spectrum"
    try:
        vals = np.load(path_val)
        vecs = np.load(path_vec)
        dense = np.linalg.eigvals(Qd)
        rho = np.abs(dense).max()
        etol = 10 * float(kw["tol"]) * rho + 1e-9 * rho
        sig = None if kw["sigma"] in (None, "None") else float(kw["sigma"])
        if sig is not None and np.min(np.abs(dense - sig)) < 1e-6 * max(1.0, rho):
            REC.skip(mon, "sigma is itself an eigenvalue")
            return
        problems = []
        if vals.shape != (12,) or vecs.shape != (Qd.shape[0], 12):
            problems.append({"shapes": [list(vals.shape), list(vecs.shape)]})
        miss = unmatched(vals, dense, etol)
        if miss:
            problems.append({"saved_eigenvalues_not_matched_one_to_one_in_dense_spectrum": miss[:4], "tolerance": etol, "rho": rho})
        if np.any(np.diff(np.real(vals)) > etol):
            problems.append({"saved_eigenvalues_not_descending": np.real(vals)})
        REC.check(mon, not problems, {"problems": problems, "setting": kw})
    except Exception as e:
        REC.crashed("C14.oracle_error", e)


def drive(spec, rng, nprng, repo):
    d = tempfile.mkdtemp(prefix="verif_c14_")
    REC.begin_case(spec, cls=[f"route={spec['route']}", f"cartesian={spec['cartesian']}", f"n_b={spec['n_b']}"], sample=(spec["n_b"] == 4))
    try:
        out = pipeline(spec, rng, nprng, d, repo)
        if out is not None and out[0] and out[1] >= 14 and spec["n_b"] >= 4:
            REC.nontrivial_case(spec)
        for tw in (twins_of(spec, rng) if spec.get("twin") else []):
            # history: the experiment is run again in the SAME folder and process for a grid of equal size (same numbers of cells and of
            # neighbour pairs, same total volume): nothing remembered or left on disk from the first grid may be served for the second
            REC.begin_case(tw, cls=["twin pipeline in the same folder"])
            pipeline(tw, rng, nprng, d, repo)
    except Exception as e:
        REC.crashed("C14.call_raised", e)
    finally:
        shutil.rmtree(d, ignore_errors=True)


def twins_of(spec, rng):
    """a grid specification of the same shape: innermost radius moved (n_t >= 3; the total volume depends on the outer shells only) or the
    sibling direction algorithm with the same N"""
    tw = dict(spec)
    radii = [float(x) for x in spec["t"].strip("[]").split(",")]
    options = []
    if len(radii) >= 3:
        options.append("radius")
    alg, N = spec["o"].split("_")
    if not spec["cartesian"]:
        options.append("algorithm")
    out = []
    if "algorithm" in options:
        out.append(dict(tw, o=rng.choice([a for a in ("ico", "cube3D", "randomS") if a != alg]) + "_" + N, twin=False))
    if "radius" in options:
        radii[0] = round(radii[0] + (radii[1] - radii[0]) * rng.choice([0.3, 0.5]), 4)
        out.append(dict(tw, t="[" + ", ".join(str(x) for x in radii) + "]", twin=False))
    return out


def shards(tier, seed):
    n, per = (14, 1) if tier == "quick" else (32, 4)
    return [{"rseed": seed * 1000 + i, "count": per} for i in range(n)]


def make_spec(rng):
    from vlib.props.c02 import surrounds
    n_b = rng.choice([1, 4, 5, 8])
    n_o = rng.choice([4, 7, 12, 13])
    balg, oalg = rng.choice(["cube4D", "randomQ"]), rng.choice(["ico", "cube3D", "randomS"])
    T_ = rng.choice([2, 3])
    r = [rng.randint(10, 40) / 100]
    for _ in range(T_ - 1):
        r.append(round(r[-1] + rng.choice([0.05, 0.1, 0.2]), 3))
    t = "[" + ", ".join(str(x) for x in r) + "]"
    cart = rng.random() < 0.4 and surrounds(oalg, n_o)
    spec = {"b": f"{balg}_{n_b}" if n_b > 1 else "1", "o": f"{oalg}_{n_o}", "t": t, "factor": rng.choice([0.5, 1, 2, 2, 1500, 0.01]), "cartesian": cart,
            **({"deep_well": True} if (z := rng.random()) < 0.25 else {"ramp": True} if (z < 0.5 and T_ >= 3) else {}),   # never both: differences must stay below the cap
            "T": rng.choice([200.0, 273.0, 300.0, 400.0]), "D": rng.choice([0.1, 1.0, 27.5]), "route": rng.choice(["workflow", "workflow", "library"]),
            "n_b": n_b, "energy_offset": rng.choice([0.0, 0.0, -4.0e5, 1.0e4]), "shared_tool": rng.random() < 0.5,
            "twin": rng.random() < 0.5, "failed_first": rng.random() < 0.4}
    flat = rng.random() < 0.3
    if flat and not (spec.get("deep_well") or spec.get("ramp") or spec["factor"] not in (0.5, 1, 2)):
        # an almost flat landscape (free diffusion), only on well-conditioned pipelines: with rates spread over twelve decades the dense
        # reference itself no longer resolves the tiny eigenvalues next to zero
        spec["energy_spread"] = 0.5
    return spec


def run_shard(spec):
    install()
    repo = os.environ.get("VERIF_REPO", "/repo")
    rng = random.Random(spec["rseed"])
    nprng = np.random.default_rng(spec["rseed"])
    for it in range(spec["count"]):
        drive(make_spec(rng), rng, nprng, repo)
    # small grids on which ARPACK converges before rounding noise can re-introduce the stationary vector (regression cases of F15):
    # every run contains them, whatever the seed
    fixed = {0: {"b": "1", "o": "randomS_7", "t": "[0.35, 0.4, 0.5]", "factor": 2, "cartesian": False, "T": 400.0, "D": 27.5, "route": "library", "n_b": 1, "shared_tool": True, "energy_offset": -4.0e5},
             3: {"b": "4", "o": "ico_7", "t": "[0.2, 0.35]", "factor": 1500, "cartesian": False, "T": 300.0, "D": 1.0, "route": "library", "n_b": 4},
             5: {"b": "1", "o": "ico_12", "t": "[0.2, 0.3, 0.4]", "factor": 1500, "cartesian": False, "T": 300.0, "D": 1.0, "route": "library", "n_b": 1,
                 "energy_spread": 5.0},   # uniformly tiny rates (~1/f^2): slow eigenvalues of order 1e-9 are still eigenvalues
             6: {"b": "1", "o": "ico_12", "t": "[3, 6, 9]", "factor": 1500, "cartesian": False, "T": 300.0, "D": 1.0, "route": "workflow", "n_b": 1,
                 "energy_spread": 5.0},   # the same through the literal workflow rules (their saved files are judged)
             7: {"b": "4", "o": "ico_7", "t": "[0.2, 0.3, 0.4]", "factor": 1, "cartesian": False, "T": 300.0, "D": 1.0, "route": "workflow", "n_b": 4,
                 "ramp": True},
             4: {"b": "1", "o": "ico_12", "t": "[0.2, 0.3, 0.45]", "factor": 2, "cartesian": False, "T": 220.0, "D": 1.0, "route": "library", "n_b": 1, "deep_well": True,
                 "twin": True},
             1: {"b": "1", "o": "ico_12", "t": "[0.2, 0.3]", "factor": 1, "cartesian": False, "T": 300.0, "D": 1.0, "route": "workflow", "n_b": 1,
                 "twin": True, "failed_first": True},
             8: {"b": "1", "o": "1", "t": "linspace(0.2, 1.6, 15)", "factor": 2, "cartesian": False, "T": 300.0, "D": 0.5, "route": "library", "n_b": 1,
                 "energy_spread": 0.0},   # free radial diffusion on one ray with 15 shells, k = 12: the requested eigenvalues reach deep into
             #                              the spectrum of a chain (extreme eigenvalue close to -2 max|diag|)
             9: {"b": "1", "o": "cube3D_8", "t": "[0.2, 0.3]", "factor": 2, "cartesian": False, "T": 300.0, "D": 0.5, "route": "library", "n_b": 1,
                 "energy_spread": 0.3},   # an almost flat landscape on 16 cells, k = 12
             2: {"b": "4", "o": "cube3D_4", "t": "[0.2, 0.35]", "factor": 2, "cartesian": False, "T": 273.0, "D": 1.0, "route": "library", "n_b": 4}}
    k = spec["rseed"] % 1000
    if k in fixed:
        drive(fixed[k], rng, nprng, repo)


def replay(case):
    install()
    drive(case, random.Random(0), np.random.default_rng(0), os.environ.get("VERIF_REPO", "/repo"))
