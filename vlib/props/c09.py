"""C09 - full-grid row order is position-major, rotation-minor and is recoverable.

Monitors: postconditions on FullGrid.get_full_grid_as_array, get_position_index, get_quaternion_index and on the module function
from_full_array_to_o_b_t (which looks up, by array digest, the three generating grids registered when the array was produced).
"""
import hashlib
import random

import numpy as np

from vlib import attach
from vlib.props import c16
from vlib.rec import REC

ID = "C09"
LEVEL = "exploration"
DECIDING = ["C09.full_array", "C09.position_index", "C09.quaternion_index", "C09.decomposition"]
RULE = ("random full grids over all direction x rotation algorithm combinations (incl. zero grids and bare numbers), n_b in 1..20, n_o in 1..45, "
        "n_t in 1..5 with unsorted radial input, also radii with 7+ decimals; 80-300 directions x 6-30 layers of radii with 6-10 decimals; every n_b from 1 to 128 (thorough 400) plus 8 (32) sampled up to 256 (700) for the two index helpers over all rows and over the multiples of n_b; for each grid: the array, both index helpers with None / all / random subsets (repeats, unsorted; returned arrays modified in place by the caller in half of the cases), "
        "and the decomposition. Non-trivial = n_b>=2 and n_o>=2 and n_t>=2; distinct by (b name, o name, radial text)")
ASSUMPTIONS = ["quaternion columns compared bit-exactly, positions at 1e-12 relative, decomposition at 1e-8 (the code rounds to 8 decimals)",
               "radii are re-read from the text by the harness' own exact reader"]
EXHAUSTIVE = {"quick": False, "thorough": False}
MIN_NONTRIVIAL = {"quick": 20, "thorough": 400}
SHARD_TIMEOUT = {"quick": 900, "thorough": 7200}

REG = {}


def _sizes(self):
    d = np.asarray(self.get_position_grid().get_o_grid().get_grid_as_array(), dtype=float)
    q = np.asarray(self.b_rotations.get_grid_as_array(only_upper=True), dtype=float)
    text = self.t_grid_name
    got = c16.expected_array(text) if isinstance(text, str) else None
    if got is not None and not got[2]:
        r = np.array([float(v * 10) for v in got[0]])
    else:
        r = np.asarray(self.get_position_grid().get_radii(), dtype=float)
    return d, q, r


def rows_are_position_major_rotation_minor(self, result):
    mon = "C09.full_array"
    try:
        d, q, r = _sizes(self)
        n_o, n_b, n_t = len(d), len(q), len(r)
        A = np.asarray(result, dtype=float)
        problems = []
        if A.shape != (n_t * n_o * n_b, 7):
            problems.append(f"shape {A.shape} != {(n_t * n_o * n_b, 7)}")
        else:
            n = np.arange(len(A))
            pos = n // n_b
            t, o, b = pos // n_o, pos % n_o, n % n_b
            want_pos = r[t][:, None] * d[o]
            want_q = q[b]
            if A[:, 3:].tobytes() != np.ascontiguousarray(want_q).tobytes():
                k = int(np.argmax(np.any(A[:, 3:] != want_q, axis=1)))
                problems.append({"row": k, "quaternion": A[k, 3:], "expected": want_q[k]})
            if not np.allclose(A[:, :3], want_pos, rtol=1e-12, atol=1e-12):
                k = int(np.argmax(np.abs(A[:, :3] - want_pos).max(axis=1)))
                problems.append({"row": k, "position": A[k, :3], "expected": want_pos[k], "t,o,b": [int(t[k]), int(o[k]), int(b[k])]})
            if len(self) != len(A):
                problems.append(f"len(fullgrid) = {len(self)}")
            REG[hashlib.md5(np.ascontiguousarray(A).tobytes()).hexdigest()] = (d, q, r)
        if problems:
            REC.fail(mon, {"b": self.b_grid_name, "o": self.o_grid_name, "t": self.t_grid_name, "problems": problems})
        else:
            REC.ok(mon)
    except Exception as e:
        REC.crashed("C09.oracle_error", e)
    return True


def _index_helper(self, full_grid_indices, result, which):
    mon = f"C09.{which}_index"
    try:
        d, q, r = _sizes(self)
        n_b = len(q)
        total = len(d) * len(q) * len(r)
        idx = np.arange(total) if full_grid_indices is None else np.asarray(full_grid_indices)
        want = idx // n_b if which == "position" else idx % n_b
        res = np.asarray(result)
        REC.check(mon, res.shape == want.shape and np.array_equal(res, want),
                  lambda: {"b": self.b_grid_name, "o": self.o_grid_name, "t": self.t_grid_name,
                           "indices": idx[:20], "result": res[:20], "expected": want[:20]})
    except Exception as e:
        REC.crashed("C09.oracle_error", e)
    return True


def position_index_is_n_div_nb(self, full_grid_indices, result):
    return _index_helper(self, full_grid_indices, result, "position")


def quaternion_index_is_n_mod_nb(self, full_grid_indices, result):
    return _index_helper(self, full_grid_indices, result, "quaternion")


def _array_digest(full_array):
    return hashlib.md5(np.ascontiguousarray(np.asarray(full_array, dtype=float)).tobytes()).hexdigest()


def decomposition_returns_generating_grids(full_array, result, OLD):
    mon = "C09.decomposition"
    try:
        key = OLD.digest
        if _array_digest(full_array) != key:
            REC.fail("C09.decomposition_input_untouched", {"problem": "from_full_array_to_o_b_t modified the caller's array",
                                                            "rows_head_after": np.asarray(full_array)[:3]})
        else:
            REC.ok("C09.decomposition_input_untouched")
        if key not in REG:
            REC.skip(mon, "array not produced by a monitored FullGrid")
            return True
        d, q, r = REG[key]
        o_res, b_res, t_res = [np.asarray(x, dtype=float) for x in result]
        problems = []
        for name, got, want in (("directions", o_res, d), ("rotations", b_res, q), ("radii", t_res, r)):
            if got.shape != want.shape:
                problems.append({name: f"shape {got.shape} != {want.shape}"})
            elif not np.allclose(got, want, rtol=0, atol=2e-8 * max(1.0, np.abs(want).max())):
                problems.append({name: "values/order differ", "got_head": got[:3], "expected_head": want[:3]})
        if problems:
            REC.fail(mon, {"n_o": len(d), "n_b": len(q), "radii": r, "problems": problems})
        else:
            REC.ok(mon)
    except Exception as e:
        REC.crashed("C09.oracle_error", e)
    return True


def install():
    from molgri.space import fullgrid
    attach.ensure(fullgrid.FullGrid, "get_full_grid_as_array", rows_are_position_major_rotation_minor)
    attach.ensure(fullgrid.FullGrid, "get_position_index", position_index_is_n_div_nb)
    attach.ensure(fullgrid.FullGrid, "get_quaternion_index", quaternion_index_is_n_mod_nb)
    attach.ensure(fullgrid, "from_full_array_to_o_b_t", decomposition_returns_generating_grids, snapshots=[("digest", _array_digest)])
    return fullgrid


def radial(rng):
    T = rng.randint(1, 5)
    if rng.random() < 0.12 and T >= 2:
        # nearly coincident shells far out: neighbouring radii differ by 1e-6..1e-4 of the radius (5e-5..1e-3 A), far above the 1e-8 A the
        # decomposition resolves
        a = rng.choice([1.0, 2.5, 10.0])
        vals = [a]
        for _ in range(T - 1):
            vals.append(round(vals[-1] + a * 10 ** rng.uniform(-6, -4), 9))
        if rng.random() < 0.5:
            vals.append(round(vals[-1] + 0.5, 3))
        return "[" + ", ".join(repr(v) for v in vals) + "]", len(vals)
    if rng.random() < 0.25 and T >= 2:
        # radii with many decimals in Angstrom (the decomposition must give them back, not a rounded version of them)
        a = rng.randint(5, 150) / 100
        form = rng.choice(["linspace", "list7"])
        if form == "linspace":
            return f"linspace({a}, {a + rng.randint(1, 9) / 7:.6f}, {T})", T
        vals = sorted({round(a + rng.random(), 7) for _ in range(T)})
        return "[" + ", ".join(repr(v) for v in vals) + "]", len(vals)
    r = sorted(rng.sample(range(5, 200), T))
    vals = [x / 100 for x in r]
    rng.shuffle(vals)
    form = rng.choice(["list", "tuple"])
    if T == 1 and rng.random() < 0.5:
        return f"{vals[0]}", T
    body = ", ".join(str(v) for v in vals)
    return (f"[{body}]" if form == "list" else f"({body}{',' if T == 1 else ''})"), T


def drive(fullgrid, b, o, t, rng):
    REC.begin_case({"b": b, "o": o, "t": t}, cls=[f"b_alg={b.split('_')[0] if '_' in b else 'bare'}", f"o_alg={o.split('_')[0] if '_' in o else 'bare'}"],
                   sample=(rng.random() < 0.05))
    try:
        import molgri.molecules.transitions as tr  # noqa: F401  (holds an alias of from_full_array_to_o_b_t that must be re-bound)
        fg = fullgrid.FullGrid(b, o, t)
        A = fg.get_full_grid_as_array()
        n = len(A)
        p_all = fg.get_position_index()
        q_all = fg.get_quaternion_index()
        if rng.random() < 0.5:
            # hostile caller: works in place on what it was handed; later answers (also of other grids of equal size) must not change
            try:
                p_all *= 3
                q_all += 7
            except Exception:
                pass
        fg.get_position_index(np.arange(n))
        sub = np.array([rng.randrange(n) for _ in range(rng.randint(1, 30))])
        fg.get_position_index(sub)
        fg.get_quaternion_index(sub)
        fg.get_quaternion_index(sub[::-1].tolist() if rng.random() < 0.3 else sub[::-1])
        fullgrid.from_full_array_to_o_b_t(A)
        tr.from_full_array_to_o_b_t(A)        # the same array object again, through the alias the assignment code uses
        tr.from_full_array_to_o_b_t(A.copy())
        # history: the package's own consumers of the rotation grid must leave it intact (C07 predicates re-evaluated on the live object,
        # the array asked again under the C09 monitor)
        from vlib.props import c07
        fg.get_body_rotations()
        c07.grid4d_is_N_unique_rotations(fg.b_rotations.algorithm_name, fg.b_rotations.N, fg.b_rotations)
        fg.get_full_grid_as_array()
        if fg.get_b_N() >= 2 and fg.get_o_N() >= 2 and fg.get_t_N() >= 2:
            REC.nontrivial_case((b, o, t))
    except Exception as e:
        REC.crashed("C09.call_raised", e)


def drive_index_sweep(fullgrid, n_b, rng):
    """the index helpers for one n_b, over every row (the row count and n_b are the only inputs of the two helpers, so every n_b up to a
    bound is visited instead of sampled: arithmetic shortcuts such as multiplying by 1/n_b go wrong only for particular n_b)"""
    b, o, t = f"randomQ_{n_b}", rng.choice(["ico_12", "cube3D_9", "13"]), rng.choice(["[0.1, 0.2, 0.3]", "(0.25, 0.15, 0.4, 0.3)"])
    REC.begin_case({"b": b, "o": o, "t": t, "index_sweep": True}, cls=["index_sweep"], sample=(rng.random() < 0.02))
    try:
        fg = fullgrid.FullGrid(b, o, t)
        n = len(fg.get_full_grid_as_array())
        fg.get_position_index()
        fg.get_quaternion_index()
        rows = np.arange(n)
        fg.get_position_index(rows)
        fg.get_quaternion_index(rows.tolist() if rng.random() < 0.3 else rows)
        multiples = np.arange(0, n, n_b)[::-1]
        fg.get_position_index(multiples)
        fg.get_quaternion_index(multiples)
        if n_b >= 2:
            REC.nontrivial_case((b, o, t))
    except Exception as e:
        REC.crashed("C09.call_raised", e)


def drive_many_layers(fullgrid, rng):
    """many directions x many layers whose radii have more decimals than the 8 the decomposition rounds to"""
    n_o = rng.choice([80, 100, 120, 162, 200, 300])
    T = rng.randint(6, 30)
    a = rng.randint(5, 60) / 100
    if rng.random() < 0.5:
        t = f"linspace({a}, {a + rng.randint(3, 14) / 7:.6f}, {T})"
    else:
        vals = sorted({round(a + 1.5 * rng.random(), 10) for _ in range(T)})
        t = "[" + ", ".join(repr(v) for v in vals) + "]"
    b = rng.choice(["cube4D_8", "randomQ_3", "1", "zero"])
    o = rng.choice([f"ico_{n_o}", f"cube3D_{n_o}", f"randomS_{n_o}"])
    drive(fullgrid, b, o, t, rng)


def drive_many_rows(fullgrid, rng):
    """more than 2^16 rows with a rotation count that is not a power of two: an array filled block-wise (or indexed with a narrow integer
    type) keeps the phase n mod n_b only up to the first block boundary"""
    n_b = rng.choice([5, 7, 9])
    n_o = rng.choice([300, 400, 600])
    T = (2 ** 16) // (n_b * n_o) + rng.randint(1, 3)
    t = f"linspace(0.2, {0.2 + 0.05 * T:.2f}, {T})"
    REC.classes["more than 2^16 rows"] += 1
    drive(fullgrid, f"cube4D_{n_b}", rng.choice([f"ico_{n_o}", f"cube3D_{n_o}"]), t, rng)


# building the rotation grid costs ~4e-4 * n_b^2 s, so the complete sweep stops at SWEEP_MAX and larger n_b are sampled
SWEEP_MAX = {"quick": 128, "thorough": 400}
SWEEP_SAMPLE = {"quick": (129, 256, 1), "thorough": (401, 700, 2)}


def shards(tier, seed):
    n, per = (8, 15) if tier == "quick" else (16, 150)
    out = [{"rseed": seed * 1000 + i, "count": per, "layers": 2 if tier == "quick" else 12} for i in range(n)]
    k = 8 if tier == "quick" else 16
    lo, hi, cnt = SWEEP_SAMPLE[tier]
    pick = random.Random(seed * 77 + 5)
    out += [{"rseed": seed * 1000 + 500 + i, "sweep": [i + 1, SWEEP_MAX[tier] + 1, k], "extra": [pick.randint(lo, hi) for _ in range(cnt)]}
            for i in range(k)]
    return out


def run_shard(spec):
    fullgrid = install()
    c16.install()
    from vlib.props import c07
    c07.install()  # cross-cutting: every grid built here is also judged by the C07 monitors
    rng = random.Random(spec["rseed"])
    if "sweep" in spec:
        for n_b in list(range(*spec["sweep"])) + spec.get("extra", []):
            drive_index_sweep(fullgrid, n_b, rng)
        return
    for it in range(spec.get("layers", 0)):
        drive_many_layers(fullgrid, rng)
    if spec["rseed"] % 1000 == 0 or (spec.get("tier") == "thorough" and spec["rseed"] % 1000 < 4):
        drive_many_rows(fullgrid, rng)
    for it in range(spec["count"]):
        nb = rng.choice([1, 1, 2, 3, 4, 5, 8, 9, 13, 20, rng.randint(1, 20)])
        no = rng.choice([1, 2, 3, 4, 7, 12, 13, 42, 45, rng.randint(1, 45)])
        b = rng.choice([f"cube4D_{nb}", f"randomQ_{nb}", f"{nb}", "zero", "fulldiv_8"])
        o = rng.choice([f"ico_{no}", f"cube3D_{no}", f"randomS_{no}", f"{no}", "zero"])
        t, T = radial(rng)
        drive(fullgrid, b, o, t, rng)


def replay(case):
    fullgrid = install()
    if case.get("index_sweep"):
        return drive_index_sweep(fullgrid, int(case["b"].split("_")[1]), random.Random(0))
    drive(fullgrid, case["b"], case["o"], case["t"], random.Random(0))
