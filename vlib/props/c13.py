"""C13 - merging and deleting cells is exact lumping with correct index bookkeeping.

Monitors (postconditions with a snapshot of the incoming index list) on the real merge_matrix_cells,
delete_rate_cells and SQRA.cut_and_merge.  Two oracles:
  * one-step partition model: from the *incoming* matrix + index list + join/remove list, what the outgoing pair must be;
  * history model: the harness keeps the ORIGINAL matrix M0 and a partition alongside the threaded index list and checks
    every off-diagonal entry against the sum over M0 (exact: M0[i,j] = 2^(i*n+j) in the exhaustive runs).
"""
import itertools
import random

import numpy as np
from scipy.sparse import csr_array, issparse

from vlib import attach
from vlib.rec import REC

ID = "C13"
LEVEL = "exploration"
DECIDING = ["C13.merge_step", "C13.delete_step", "C13.history", "C13.cut_and_merge"]
RULE = ("histories = (n, storage form, sequence of merge(join lists)/delete(cell list) operations threading the returned index "
        "list). Exhaustive: n<=4 (quick) / n<=5 (thorough), every set partition as join lists, every deletion subset, every "
        "operation sequence of length <=2 / <=3, dense and csr, M0[i,j]=2^(i*n+j). Random: n<=12 with repeated, overlapping, "
        "permuted, already-merged and already-deleted members, integer matrices (symmetric / zero-row-sum variants) and float matrices spanning 30 orders of magnitude, dense / canonical csr / non-canonical csr (duplicate stored entries, unsorted indices), one-shot vs "
        "step-wise and dense vs csr equivalences, cut_and_merge with all four limit combinations. Non-trivial = history containing "
        "at least one effective merge or delete (matrix shrinks); distinct by digest of the history")
ASSUMPTIONS = ["index lists are threaded unchanged from one call to the next (the documented use)",
               "two inputs are unspecified and not judged (counted): results after the matrix became 0x0, and join lists whose only "
               "link between two present groups is an absent cell (either partition accepted)",
               "exhaustive matrices use powers of two, random ones small integers: all sums exact in float64"]
EXHAUSTIVE = {"quick": True, "thorough": True}
MIN_NONTRIVIAL = {"quick": 300, "thorough": 3000}
SHARD_TIMEOUT = {"quick": 600, "thorough": 3600}


# --------------------------------------------------------------------------------------- model
def dense(m):
    return np.asarray(m.todense() if issparse(m) else m, dtype=float)


def wellformed_index_list(il):
    """disjoint sorted groups of ints ordered by smallest member"""
    if il is None:
        return False
    seen = set()
    last = -1
    for g in il:
        g = [int(x) for x in g]
        if len(g) == 0 or g != sorted(set(g)):
            return False
        if seen.intersection(g):
            return False
        seen.update(g)
        if g[0] <= last:
            return False
        last = g[0]
    return True


def closure(lists):
    """transitive closure of lists sharing an element -> list of sets"""
    groups = []
    for l in lists:
        s = set(int(x) for x in l)
        if not s:
            continue
        merged = [g for g in groups if g & s]
        for g in merged:
            s |= g
            groups.remove(g)
        groups.append(s)
    return groups


def model_merge(M, il, all_to_join, strict):
    """M dense (current), il incoming index list (list of lists) -> (expected matrix, expected index list).
    strict=True: absent cells are dropped before the closure; False: closure first (docstring reading)."""
    n = M.shape[0]
    cell2row = {c: r for r, g in enumerate(il) for c in g}
    if strict:
        lists = [[c for c in l if int(c) in cell2row] for l in all_to_join]
    else:
        lists = all_to_join
    comps = closure(lists)
    parent = list(range(n))

    def find(a):
        while parent[a] != a:
            parent[a] = parent[parent[a]]
            a = parent[a]
        return a

    for comp in comps:
        rows = sorted({cell2row[c] for c in comp if c in cell2row})
        for r in rows[1:]:
            ra, rb = find(rows[0]), find(r)
            if ra != rb:
                parent[max(ra, rb)] = min(ra, rb)
    groups = {}
    for r in range(n):
        groups.setdefault(find(r), []).append(r)
    order = sorted(groups)  # representative = smallest row of the block
    P = np.zeros((n, len(order)))
    for k, rep in enumerate(order):
        P[groups[rep], k] = 1
    E = P.T @ M @ P
    new_il = [sorted(c for r in groups[rep] for c in il[r]) for rep in order]
    model_merge.scale = P.T @ np.abs(M) @ P
    return E, new_il


def model_delete(M, il, to_remove):
    gone_cells = set(int(x) for x in to_remove)
    keep = [r for r, g in enumerate(il) if not gone_cells.intersection(g)]
    E = M[np.ix_(keep, keep)].copy()
    if E.size:
        off = E.sum(axis=1) - np.diag(E)
        E[np.diag_indices_from(E)] = -off
    return E, [list(il[r]) for r in keep]


def same(a, b, scale=None):
    """equality of lumped matrices; `scale` (same shape) = sum of the absolute values that went into each entry: the rounding error of a sum is
    bounded by eps * scale, so tiny rates next to huge ones are compared relative to their own magnitude, not to the matrix maximum"""
    if a.shape != b.shape:
        return False
    if scale is None:
        scale = np.maximum(np.abs(a), np.abs(b))
    return bool(np.all(np.abs(a - b) <= 1e-12 * scale + 1e-300))


def il_eq(a, b):
    return a is not None and [[int(x) for x in g] for g in a] == [[int(x) for x in g] for g in b]


# --------------------------------------------------------------------------------------- monitors
def _snap_il(index_list):
    return None if index_list is None else [[int(x) for x in g] for g in index_list]


def _snap_matrix(my_matrix):
    return dense(my_matrix).copy()


def merge_is_exact_lumping(my_matrix, all_to_join, index_list, result, OLD):
    mon = "C13.merge_step"
    try:
        M = OLD.m
        n = M.shape[0]
        il = OLD.il if OLD.il is not None else [[i] for i in range(n)]
        if n == 0:
            REC.skip(mon, "empty matrix (unspecified)")
            return True
        if not wellformed_index_list(il) or len(il) != n:
            REC.skip(mon, "incoming index list not well-formed (outside the property)")
            return True
        R, il_out = result
        R = dense(R)
        E1, il1 = model_merge(M, il, all_to_join, strict=True)
        S1 = model_merge.scale
        E2, il2 = model_merge(M, il, all_to_join, strict=False)
        S2 = model_merge.scale
        ok1 = same(R, E1, S1) and il_eq(il_out, il1)
        ok2 = same(R, E2, S2) and il_eq(il_out, il2)
        problems = []
        if not (ok1 or ok2):
            problems.append({"result_index_list": il_out, "model_index_list": il1,
                             "alt_model_index_list": il2 if il2 != il1 else None,
                             "result": R, "model": E1})
        elif il1 != il2:
            REC.notes["unspecified:link through absent cell"] += 1
        if not wellformed_index_list(il_out) or len(il_out) != R.shape[0]:
            problems.append({"index_list_not_wellformed": il_out, "rows": R.shape[0]})
        if issparse(my_matrix) != issparse(result[0]):
            problems.append("storage kind changed (dense <-> sparse)")
        if not np.array_equal(dense(my_matrix), M) or (_snap_il(index_list) != OLD.il):
            problems.append("input matrix or index list was modified in place")
        if problems:
            REC.fail(mon, {"problems": problems, "matrix_in": M, "index_list_in": OLD.il, "all_to_join": all_to_join},
                     mechanism=None)
        else:
            REC.ok(mon)
    except Exception as e:
        REC.crashed("C13.oracle_error", e)
    return True


def delete_is_exact_restriction(my_matrix, to_remove, index_list, result, OLD):
    mon = "C13.delete_step"
    try:
        M = OLD.m
        n = M.shape[0]
        il = OLD.il if OLD.il is not None else [[i] for i in range(n)]
        if n == 0:
            REC.skip(mon, "empty matrix (unspecified)")
            return True
        if not wellformed_index_list(il) or len(il) != n:
            REC.skip(mon, "incoming index list not well-formed (outside the property)")
            return True
        R, il_out = result
        R = dense(R)
        E, il_e = model_delete(M, il, list(to_remove))
        problems = []
        if E.shape[0] == 0:
            REC.skip(mon, "everything deleted: 0x0 result (unspecified)")
            return True
        keep_rows = [r for r, g in enumerate(il) if not set(int(x) for x in to_remove).intersection(g)]
        rowabs = np.abs(M[np.ix_(keep_rows, keep_rows)]).sum(axis=1) if E.size else None   # the diagonal is d - (d + off): error ~ eps * sum |row|
        scale = np.abs(E) + np.diag(rowabs) if E.size else None
        if not same(R, E, scale):
            problems.append({"result": R, "model": E})
        if not il_eq(il_out, il_e):
            problems.append({"result_index_list": il_out, "model_index_list": il_e})
        if R.size and np.any(np.abs(R.sum(axis=1)) > 1e-12 * (np.abs(R).sum(axis=1) + rowabs) + 1e-300):
            problems.append({"row_sums_after_delete": R.sum(axis=1)})
        if issparse(my_matrix) != issparse(result[0]):
            problems.append("storage kind changed (dense <-> sparse)")
        if not np.array_equal(dense(my_matrix), M) or (_snap_il(index_list) != OLD.il):
            problems.append("input matrix or index list was modified in place")
        if problems:
            REC.fail(mon, {"problems": problems, "matrix_in": M, "index_list_in": OLD.il, "to_remove": list(to_remove)})
        else:
            REC.ok(mon)
    except Exception as e:
        REC.crashed("C13.oracle_error", e)
    return True


def cut_and_merge_returns_consistent_pair(self, transition_matrix, T, lower_limit, upper_limit, result):
    mon = "C13.cut_and_merge"
    try:
        from scipy.constants import k as kB, N_A
        M = dense(transition_matrix)
        n = M.shape[0]
        R, il = result
        Rd = dense(R)
        E = np.asarray(self.energies, dtype=float)
        problems = []
        if lower_limit is None and upper_limit is None:
            if il is not None:
                problems.append({"expected index list None, got": il})
            if not same(Rd, M):
                problems.append("matrix changed although no limit was given")
        else:
            cur_il = [[i] for i in range(n)]
            Em = M
            near_threshold = False
            if lower_limit is not None:
                h = self.distances.tocoo()
                d = np.abs((E[h.row] - E[h.col]) * 1000) / (kB * N_A * T)
                near_threshold |= bool(np.any(np.abs(d - lower_limit) <= 1e-9 * max(1.0, abs(lower_limit))))
                pairs = [[int(r), int(c)] for r, c, dd in zip(h.row, h.col, d) if dd < lower_limit]
                Em, cur_il = model_merge(Em, cur_il, pairs, strict=True)
            if upper_limit is not None:
                e = E * 1000 / (kB * N_A * T)
                near_threshold |= bool(np.any(np.abs(e - upper_limit) <= 1e-9 * max(1.0, abs(upper_limit))))
                too_high = [int(i) for i in np.where(e > upper_limit)[0]]
                Em, cur_il = model_delete(Em, cur_il, too_high)
            if near_threshold:
                REC.ambiguous(mon, "energy within 1e-9 of a limit")
                return True
            if Em.shape[0] == 0:
                REC.skip(mon, "everything deleted (unspecified)")
                return True
            if il is None:
                problems.append("index list is None although a limit was given")
            else:
                if len(il) != Rd.shape[0]:
                    problems.append({"groups": len(il), "rows": Rd.shape[0]})
                if not wellformed_index_list(il):
                    problems.append({"index_list_not_wellformed": il})
                if not il_eq(il, cur_il):
                    problems.append({"result_index_list": il, "model_index_list": cur_il})
            if not (Rd.shape == Em.shape and np.allclose(Rd, Em, rtol=1e-9, atol=1e-9 * max(1.0, np.abs(Em).max()))):
                problems.append({"result": Rd, "model": Em})
        if problems:
            REC.fail(mon, {"problems": problems, "lower": lower_limit, "upper": upper_limit, "T": T, "energies": E, "matrix_in": M})
        else:
            REC.ok(mon)
            REC.classes[f"cut_and_merge lower={'set' if lower_limit is not None else 'None'} upper={'set' if upper_limit is not None else 'None'}"] += 1
    except Exception as e:
        REC.crashed("C13.oracle_error", e)
    return True


def install():
    import molgri.molecules.rate_merger as rm
    import molgri.molecules.transitions as tr
    attach.ensure(rm, "merge_matrix_cells", merge_is_exact_lumping, snapshots=[("il", _snap_il), ("m", _snap_matrix)])
    attach.ensure(rm, "delete_rate_cells", delete_is_exact_restriction, snapshots=[("il", _snap_il), ("m", _snap_matrix)])
    attach.ensure(tr.SQRA, "cut_and_merge", cut_and_merge_returns_consistent_pair)
    return rm, tr


# --------------------------------------------------------------------------------------- workloads
def set_partitions(items):
    items = list(items)
    if not items:
        yield []
        return
    first, rest = items[0], items[1:]
    for p in set_partitions(rest):
        for i in range(len(p)):
            yield p[:i] + [[first] + p[i]] + p[i + 1:]
        yield [[first]] + p


def run_history(rm, M0, ops, sparse, cls=None, sample=False, label="history"):
    """Drive the real functions through `ops` threading the index list; check against M0 + partition model."""
    n = M0.shape[0]
    case = {"n": n, "sparse": sparse, "ops": ops, "M0": M0 if n <= 6 else {"digest_only": True}, "M0_rule": label}
    REC.begin_case(case, cls=cls, sample=sample)
    cur = csr_array(M0) if sparse else M0.copy()
    if not sparse and (n + len(ops)) % 2:
        cur = np.asfortranarray(cur)      # dense matrices arrive in either memory layout (a transpose, pandas .values)
    if sparse == "noncanonical":
        cur = noncanonical_csr(M0)
    il = None
    part = [[i] for i in range(n)]      # model partition (strict reading)
    Mm = M0.astype(float).copy()        # model matrix
    effective = False
    ambiguous_history = False
    for step, (kind, arg) in enumerate(ops):
        if cur.shape[0] == 0:
            REC.notes["unspecified:operation on 0x0 matrix"] += 1
            break
        if il is not None and len(il) >= 2 and (step + n) % 4 == 1:
            # history: a threaded call that is refused (index list one group short of the matrix: the functions assert on that) directly
            # before the next real step; nothing of the refused call may survive into it
            try:
                bad = [list(g) for g in il[:-1]]
                (rm.merge_matrix_cells if kind == "m" else rm.delete_rate_cells)(cur.copy(), [[bad[0][0], bad[-1][0]]] if kind == "m" else [bad[0][0]],
                                                                                   index_list=bad)
                REC.notes["a call with an index list shorter than the matrix was not refused (not judged)"] += 1
            except Exception:
                REC.classes["refused call before a threaded step"] += 1
        try:
            # the lists in the forms callers use: lists of Python ints, numpy integer arrays (np.where output), tuples
            form = (step + len(ops) + n) % 3
            if kind == "m":
                jl = [list(a) for a in arg] if form == 0 else [np.array(a, dtype=np.int64) for a in arg] if form == 1 else [tuple(int(x) for x in a) for a in arg]
                cur, il = rm.merge_matrix_cells(cur, jl, index_list=il)
            else:
                rl = list(arg) if form == 0 else np.array(arg, dtype=np.int64) if form == 1 else tuple(int(x) for x in arg)
                cur, il = rm.delete_rate_cells(cur, rl, index_list=il)
        except Exception as e:
            REC.crashed("C13.call_raised", e)
            return None
        # model step
        if kind == "m":
            E1, p1 = model_merge(Mm, part, arg, strict=True)
            E2, p2 = model_merge(Mm, part, arg, strict=False)
            if p1 != p2:
                # unspecified input: follow whichever reading the code took, if it took one of them
                ambiguous_history = True
                if il_eq(il, p2):
                    E1, p1 = E2, p2
            Mm_new, part_new = E1, p1
        else:
            Mm_new, part_new = model_delete(Mm, part, arg)
        if Mm_new.shape[0] < Mm.shape[0]:
            effective = True
        Mm, part = Mm_new, part_new
        if Mm.shape[0] == 0:
            REC.notes["unspecified:matrix emptied"] += 1
            break
        # history oracle: partition + off-diagonals as sums over the ORIGINAL matrix
        R = dense(cur)
        problems = []
        if not il_eq(il, part):
            problems.append({"index_list": il, "model_partition": part})
        else:
            k = len(part)
            S = np.zeros((k, k))
            for a in range(k):
                for b in range(k):
                    S[a, b] = M0[np.ix_(part[a], part[b])].sum()
            offmask = ~np.eye(k, dtype=bool)
            Sabs = np.zeros((k, k))
            for a_ in range(k):
                for b_ in range(k):
                    Sabs[a_, b_] = np.abs(M0[np.ix_(part[a_], part[b_])]).sum()
            if R.shape != (k, k) or np.any(np.abs(R - S)[offmask] > 1e-12 * Sabs[offmask] + 1e-300):
                problems.append({"off_diagonal": R, "sums_over_M0": S})
            rowscale = Sabs.sum(axis=1) + np.abs(M0).sum()
            if np.any(np.abs(np.diag(R) - np.diag(Mm)) > 1e-12 * rowscale + 1e-300):
                problems.append({"diagonal": np.diag(R), "operational_rule": np.diag(Mm)})
        if problems:
            REC.fail("C13.history", {"step": step, "op": [kind, arg], "problems": problems})
            return None
        REC.ok("C13.history")
    if effective:
        REC.nontrivial_case()
    return cur, il, part, Mm


def noncanonical_csr(M0):
    """a legal csr array for the same matrix with duplicate stored entries (also on the diagonal) and unsorted column indices"""
    n = M0.shape[0]
    data, indices, indptr = [], [], [0]
    for i in range(n):
        cols = [j for j in range(n) if M0[i, j] != 0][::-1]            # unsorted
        for j in cols:
            v = M0[i, j]
            if (i + j) % 3 == 0 and float(v) == float(int(v)) and abs(v) >= 2:   # split exactly representable values: a + b
                data += [1.0, v - 1.0]
                indices += [j, j]
            else:
                data.append(v)
                indices.append(j)
        indptr.append(len(data))
    return csr_array((np.array(data, dtype=float), np.array(indices), np.array(indptr)), shape=(n, n))


def pow2_matrix(n):
    return np.array([[2.0 ** (i * n + j) for j in range(n)] for i in range(n)])


def run_exhaustive(rm, spec):
    nmax, maxops, nsh, sh = spec["nmax"], spec["maxops"], spec["nshards"], spec["shard"]
    idx = 0
    for n in range(1, nmax + 1):
        M0 = pow2_matrix(n)
        merges = [("m", [g for g in p if len(g) > 1]) for p in set_partitions(range(n))]
        deletes = [("d", list(s)) for r in range(0, n + 1) for s in itertools.combinations(range(n), r)]
        ops_all = merges + deletes
        L = maxops if n < nmax or n <= 4 else spec.get("maxops_at_nmax", maxops)
        for length in range(1, L + 1):
            for ops in itertools.product(ops_all, repeat=length):
                idx += 1
                if idx % nsh != sh:
                    continue
                for sparse in (False, True):
                    run_history(rm, M0, [list(o) for o in ops], sparse, cls=[f"n={n}", f"ops={length}", f"sparse={sparse}"],
                                sample=(n == 4 and length == 2 and idx % 97 == 0), label="2^(i*n+j)")


def random_join_lists(rng, n):
    lists = []
    for _ in range(rng.randint(0, 4)):
        k = rng.randint(1, min(n + 2, 5))
        l = [rng.randrange(0, n + 2) if rng.random() < 0.1 else rng.randrange(n) for _ in range(k)]  # a few ids >= n (never present)
        if rng.random() < 0.3 and l:
            l.append(rng.choice(l))  # repeated member
        lists.append(l)
    if lists and rng.random() < 0.3:
        lists.append(list(rng.choice(lists)))  # redundant sublist
    rng.shuffle(lists)
    return lists


def run_random(rm, tr, spec):
    rng = random.Random(spec["rseed"])
    nprng = np.random.default_rng(spec["rseed"])
    for it in range(spec["count"]):
        n = rng.randint(2, 12)
        kind = rng.choice(["general", "symmetric", "zero_row_sum", "sym_zero_row_sum", "wide_range", "wide_range"])
        M0 = nprng.integers(-9, 10, size=(n, n)).astype(float)
        if kind == "wide_range":
            # rates spanning many orders of magnitude (as SqRA rate matrices do): every stored entry counts, however small
            M0 = 10.0 ** nprng.uniform(-25, 5, size=(n, n)) * (nprng.random((n, n)) < 0.7)
        if "sym" in kind:
            M0 = M0 + M0.T
        if "zero_row_sum" in kind:
            M0[np.diag_indices(n)] = 0
            M0[np.diag_indices(n)] = -M0.sum(axis=1)
        ops = []
        for _ in range(rng.randint(1, 5)):
            if rng.random() < 0.6:
                ops.append(["m", random_join_lists(rng, n)])
            else:
                ops.append(["d", [rng.randrange(n) for _ in range(rng.randint(0, 2))]])
        # all ids must be legal cell ids when there is no index list yet (first op): clip
        k0, a0 = ops[0]
        if k0 == "m":
            ops[0][1] = [[c for c in l if c < n] for l in a0]
            ops[0][1] = [l for l in ops[0][1] if l]
        outs = {}
        forms = (False, True, "noncanonical") if kind != "wide_range" and it % 3 == 0 else (False, True)
        for sparse in forms:
            outs[sparse] = run_history(rm, M0, ops, sparse, cls=[f"random {kind}", f"n={n}", f"storage={sparse}"], label=f"random {kind}")
        a, b = outs[False], outs[True]
        for other in forms[1:]:
            b = outs[other]
            if a is not None and b is not None:
                part = a[2]
                k = len(part)
                tolm = np.zeros((k, k))
                for a_ in range(k):
                    for b_ in range(k):
                        tolm[a_, b_] = np.abs(M0[np.ix_(part[a_], part[b_])]).sum()
                    tolm[a_, a_] = np.abs(M0[part[a_], :]).sum()       # diagonals went through sums and cancellations of whole rows
                REC.check("C13.dense_equals_sparse", (same(dense(a[0]), dense(b[0]), tolm) and il_eq(a[1], b[1])) if a[1] is not None else b[1] is None,
                          {"dense": dense(a[0]), "sparse": dense(b[0]), "storage": str(other)})
        b = outs[True]
        if a is not None and b is not None:
            R = dense(a[0])
            if R.size:
                if "sym" in kind:
                    # merges keep symmetry; deletes reset only the diagonal
                    REC.check("C13.symmetric_stays_symmetric", np.allclose(R, R.T, atol=1e-9), {"result": R, "ops": ops})
                if "zero_row_sum" in kind:
                    REC.check("C13.zero_row_sum_kept", np.allclose(R.sum(axis=1), 0, atol=1e-9), {"result": R, "ops": ops})
        # one-shot vs step-wise, permutation/redundancy of join lists (single merge from scratch)
        jl = [[c for c in l if c < n] for l in random_join_lists(rng, n)]
        jl = [l for l in jl if l]
        if jl:
            REC.begin_case({"n": n, "M0": M0, "join_lists": jl, "kind": "one-shot vs step-wise"}, cls="equivalence")
            try:
                one, il_one = rm.merge_matrix_cells(M0.copy(), jl, index_list=None)
                cur, il = M0.copy(), None
                for l in jl:
                    cur, il = rm.merge_matrix_cells(cur, [l], index_list=il)
                perm = [list(reversed(l)) for l in jl[::-1]] + [list(jl[0])]
                per, il_per = rm.merge_matrix_cells(csr_array(M0), perm, index_list=None)
                REC.check("C13.oneshot_equals_stepwise", same(dense(one), dense(cur)) and il_eq(il_one, il),
                          {"one_shot": [dense(one), il_one], "step_wise": [dense(cur), il]})
                REC.check("C13.order_and_redundancy_irrelevant", same(dense(one), dense(per)) and il_eq(il_one, il_per),
                          {"one_shot": [dense(one), il_one], "permuted": [dense(per), il_per]})
            except Exception as e:
                REC.crashed("C13.call_raised", e)
        # cut_and_merge with the four limit combinations on a real SqRA system
        if it % 2 == 0:
            run_cut_and_merge(tr, rng, nprng, n)


def run_cut_and_merge(tr, rng, nprng, n):
    from scipy.sparse import coo_array
    pattern = np.triu(nprng.random((n, n)) < rng.choice([0.2, 0.5, 0.9]), 1)
    pattern = pattern | pattern.T
    rows, cols = np.nonzero(pattern)
    h = nprng.uniform(0.5, 2.0, size=(n, n))
    h = (h + h.T) / 2
    s = nprng.uniform(0.5, 2.0, size=(n, n))
    s = (s + s.T) / 2
    form = rng.choice(["csr", "coo"])
    dist = coo_array((h[rows, cols], (rows, cols)), shape=(n, n))
    surf = coo_array((s[rows, cols], (rows, cols)), shape=(n, n))
    if form == "csr":
        dist, surf = dist.tocsr(), surf.tocsr()
    # energies with clusters of nearly equal values so that lower limits merge something
    base = nprng.normal(0, 5, size=n)
    energies = np.round(base, rng.choice([0, 1, 3])) + nprng.normal(0, 1e-4, size=n)
    vol = nprng.uniform(0.5, 2.0, size=n)
    T = rng.choice([200.0, 273.0, 300.0, 500.0])
    sq = tr.SQRA(energies=energies, volumes=vol, distances=dist, surfaces=surf)
    Q = sq.get_rate_matrix(D=1.0, T=T)
    for lower, upper in [(None, None), (rng.choice([0.001, 0.01, 0.3, 1.0]), None), (None, rng.choice([-1.0, 0.5, 2.0, 1e9])),
                         (rng.choice([0.001, 0.05, 0.5]), rng.choice([0.0, 1.0, 3.0, 1e9]))]:
        REC.begin_case({"kind": "cut_and_merge", "n": n, "energies": energies, "pattern_rows": rows, "pattern_cols": cols,
                        "lower": lower, "upper": upper, "T": T, "form": form}, cls="cut_and_merge")
        try:
            R, il = sq.cut_and_merge(Q, T=T, lower_limit=lower, upper_limit=upper)
            if il is not None and len(il) < n:
                REC.nontrivial_case()
        except Exception as e:
            REC.crashed("C13.call_raised", e, mechanism=None)


def shards(tier, seed):
    if tier == "quick":
        nsh = 8
        out = [{"kind": "exhaustive", "nmax": 4, "maxops": 2, "nshards": nsh, "shard": i} for i in range(nsh)]
        out += [{"kind": "random", "rseed": seed * 1000 + i, "count": 375} for i in range(8)]
        out += [{"kind": "repo_tests", "modules": ["tests/test_rate_merger.py"]}]
    else:
        nsh = 48
        out = [{"kind": "exhaustive", "nmax": 5, "maxops": 3, "maxops_at_nmax": 3, "nshards": nsh, "shard": i} for i in range(nsh)]
        out += [{"kind": "random", "rseed": seed * 1000 + i, "count": 3200} for i in range(16)]
        out += [{"kind": "repo_tests", "modules": ["tests/test_rate_merger.py"]}]
    return out


def run_shard(spec):
    rm, tr = install()
    if spec["kind"] == "exhaustive":
        run_exhaustive(rm, spec)
    elif spec["kind"] == "repo_tests":
        from vlib import repo_tests
        repo_tests.run(spec["modules"])
    else:
        run_random(rm, tr, spec)


def replay(case):
    rm, tr = install()
    if case.get("kind") == "cut_and_merge" or "ops" not in case:
        raise RuntimeError("replay of random equivalence/cut_and_merge cases: re-run the tier with the same VERIF_SEED")
    M0 = np.array(case["M0"], dtype=float) if not isinstance(case["M0"], dict) else None
    if M0 is None:
        raise RuntimeError("matrix not stored; re-run the tier with the same VERIF_SEED")
    run_history(rm, M0, case["ops"], case["sparse"])
