"""C06 - Cartesian position mode reports the Euclidean Voronoi cell geometry.

Monitors: postconditions on the real PositionGrid getters when position_grid_cartesian=True.  Oracle: vlib.oracles.euclid on the
harness' own point set (directions x radii plus the extra outer shell), validated on sampled faces by qhull-free half-plane clipping.
"""
import random

import numpy as np

from vlib import attach, geom3
from vlib.oracles import euclid
from vlib.props import c16
from vlib.props.c02 import origin_inside_hull
from vlib.rec import REC

ID = "C06"
LEVEL = "exploration"
DECIDING = ["C06.volumes", "C06.borders", "C06.distances"]
RULE = ("Cartesian position grids: direction algorithm in {ico, cube3D, randomS}, quick ~60 (N, radii) configurations incl. ico_42, cube3D_26 "
        "(centrally symmetric faces), thin-shell radial grids (spacing 1e-3 of the radius) and the small non-surrounding sets; thorough every N in 4..60 x 6 radial grids (1-4 radii, equal and unequal "
        "increments). The three getters (+ adjacency) are called on each object. Non-trivial = direction set surrounding the origin with >=2 "
        "shells; distinct by (algorithm, N, radial text)")
ASSUMPTIONS = ["coplanar direction sets are outside the quantifier (skipped, counted)", "areas/volumes compared at rtol 1e-6, distances 1e-10",
               "the qhull-based oracle numbers are cross-checked per grid against pure half-plane clipping on sampled faces",
               "open Euclidean cells (direction set does not surround the origin) are known finding F10"]
EXHAUSTIVE = {"quick": False, "thorough": False}
MIN_NONTRIVIAL = {"quick": 25, "thorough": 250}
SHARD_TIMEOUT = {"quick": 900, "thorough": 7200}
RTOL = 1e-6
_CACHE = {}


def expected(self):
    D = np.asarray(self.get_o_grid().get_grid_as_array(), dtype=float)
    text = self.t_grid.user_input
    got = c16.expected_array(text) if isinstance(text, str) else None
    r = np.array([float(v * 10) for v in got[0]]) if got is not None and not got[2] else np.asarray(self.get_radii(), dtype=float)
    key = (D.tobytes(), r.tobytes())
    if key not in _CACHE:
        if len(_CACHE) > 8:
            _CACHE.clear()
        extra = r[-1] + (r[-1] - r[-2] if len(r) > 1 else r[-1])
        rr = np.concatenate([r, [extra]])
        pts = np.vstack([D * x for x in rr])
        cells = euclid.voronoi_cells(pts)
        cells["points"] = pts
        cells["n"] = len(D) * len(r)
        cells["surrounds"] = origin_inside_hull(D)
        cells["coplanar"] = np.linalg.matrix_rank(D - D.mean(axis=0), tol=1e-9) < 3 and np.linalg.matrix_rank(D, tol=1e-9) < 3
        _CACHE[key] = cells
    return _CACHE[key]


def _applicable(self, mon):
    if not bool(getattr(self, "position_grid_cartesian", False)):
        return None
    if self.get_o_grid().get_N() < 4:
        REC.skip(mon, "fewer than four directions (outside the quantifier)")
        return None
    e = expected(self)
    if e["coplanar"]:
        REC.skip(mon, "coplanar direction set (outside the quantifier)")
        return None
    return e


def _fail(mon, self, problems, e, open_only):
    REC.fail(mon, {"o": self.get_o_grid().get_name(with_dim=False), "t": self.t_grid.user_input, "problems": problems[:4],
                   "direction_set_surrounds_origin": e["surrounds"]},
             mechanism="cartesian_open_cells" if (open_only and not e["surrounds"]) else None)


def cartesian_volumes_are_voronoi_volumes(self, result):
    mon = "C06.volumes"
    try:
        e = _applicable(self, mon)
        if e is None:
            return True
        n = e["n"]
        v = np.asarray(result, dtype=float)
        problems, open_only = [], True
        if v.shape != (n,):
            problems.append(f"shape {v.shape} != {(n,)}")
            open_only = False
        else:
            want = e["volume"][:n]
            for i in range(n):
                if e["open"][i]:
                    if not (v[i] > 0):
                        problems.append({"cell": i, "reported": v[i], "problem": "Euclidean cell is unbounded; no positive volume reported"})
                elif not (v[i] > 0) or not np.isclose(v[i], want[i], rtol=RTOL):
                    problems.append({"cell": i, "reported": v[i], "voronoi_volume": want[i]})
                    open_only = False
        if problems:
            _fail(mon, self, problems, e, open_only)
        else:
            REC.ok(mon)
    except Exception as ex:
        REC.crashed("C06.oracle_error", ex)
    return True


def _pairs(self, result, what):
    mon = f"C06.{what}"
    try:
        e = _applicable(self, mon)
        if e is None:
            return True
        n = e["n"]
        c = result.tocoo()
        problems, open_only = [], True
        if c.shape != (n, n):
            problems.append(f"shape {c.shape}")
            open_only = False
        else:
            pts = e["points"]
            D = c.toarray().astype(float)
            stored = set(zip(c.row.tolist(), c.col.tolist()))
            adj = self.get_adjacency_of_position_grid().tocoo()
            adjset = set(zip(adj.row.tolist(), adj.col.tolist()))
            if stored != adjset:
                problems.append({"pattern_differs_from_adjacency": len(stored ^ adjset)})
                open_only = False
            if any(i == j for i, j in stored):
                problems.append("stored diagonal entries")
                open_only = False
            for (i, j), val in zip(zip(c.row.tolist(), c.col.tolist()), np.asarray(c.data, dtype=float)):
                involves_open = bool(e["open"][i] or e["open"][j])
                if what == "distances":
                    want = np.linalg.norm(pts[i] - pts[j])
                    if not np.isclose(val, want, rtol=1e-10) or not val > 0:
                        problems.append({"pair": [i, j], "reported": val, "euclidean_distance": want})
                        open_only = False
                else:
                    want = e["face"].get((i, j), 0.0)
                    if not (val > 0) or not np.isfinite(val) or not np.isclose(val, want, rtol=RTOL, atol=1e-12):
                        problems.append({"pair": [i, j], "reported": val, "voronoi_face_area": want, "a_cell_is_open": involves_open})
                        if not involves_open:
                            open_only = False
                if D[i, j] != D[j, i] and not np.isclose(D[i, j], D[j, i], rtol=1e-9):
                    problems.append({"not_symmetric": [i, j]})
                    open_only = False
                if len(problems) > 6:
                    break
        if problems:
            _fail(mon, self, problems, e, open_only)
        else:
            REC.ok(mon)
    except Exception as ex:
        REC.crashed("C06.oracle_error", ex)
    return True


def cartesian_borders_are_face_areas(self, result):
    return _pairs(self, result, "borders")


def cartesian_distances_are_euclidean(self, result):
    return _pairs(self, result, "distances")


def install():
    from molgri.space.fullgrid import PositionGrid
    attach.ensure(PositionGrid, "get_all_position_volumes", cartesian_volumes_are_voronoi_volumes)
    attach.ensure(PositionGrid, "get_borders_of_position_grid", cartesian_borders_are_face_areas)
    attach.ensure(PositionGrid, "get_distances_of_position_grid", cartesian_distances_are_euclidean)
    return PositionGrid


def oracle_selftest(e, rng):
    """qhull-based face areas against qhull-free clipping on a few faces (harness self-test)"""
    keys = [k for k in e["face"] if k[0] < k[1] and k[0] < e["n"] and not e["open"][k[0]] and not e["open"][k[1]]]
    for k in rng.sample(keys, min(4, len(keys))):
        a = euclid.clip_face_area(e["points"], *k)
        if np.isclose(a, e["face"][k], rtol=1e-7, atol=1e-10):
            REC.ok("C06.oracle_selftest_clipping")
        else:
            REC.harness_problem("C06 oracle: qhull face area disagrees with half-plane clipping", {"pair": list(k), "qhull": e["face"][k], "clipping": a})


def drive(PositionGrid, alg, N, text, rng):
    REC.begin_case({"o": f"{alg}_{N}", "t": text}, cls=[f"alg={alg}"], sample=(N in (12, 26)))
    try:
        pg = PositionGrid(o_grid_name=f"{alg}_{N}", t_grid_name=text, position_grid_cartesian=True)
        before = sum(REC.monitors[m]["calls"] + REC.monitors[m]["skipped"] for m in DECIDING)
        calls = [pg.get_all_position_volumes, pg.get_borders_of_position_grid, pg.get_distances_of_position_grid, pg.get_adjacency_of_position_grid]
        rng.shuffle(calls)
        from vlib.rec import call_and_hold
        call_and_hold(calls, "C06.returned_object_stable", hostile_caller=True)
        if sum(REC.monitors[m]["calls"] + REC.monitors[m]["skipped"] for m in DECIDING) == before:
            # the mode-specific monitors did not fire: the object does not consider itself Cartesian although it was requested so
            REC.fail("C06.volumes", {"o": f"{alg}_{N}", "t": text, "problem": "grid requested with position_grid_cartesian=True is not served "
                                     "by the Cartesian cell model", "flag": bool(getattr(pg, "position_grid_cartesian", None))})
        e = expected(pg)
        if e["surrounds"] and pg.t_grid.get_N_trans() >= 2:
            REC.nontrivial_case((alg, N, text))
        if not e["surrounds"]:
            REC.classes["direction set does not surround the origin"] += 1
        oracle_selftest(e, rng)
    except Exception as ex:
        REC.crashed("C06.call_raised", ex)


RADIAL = ["[0.2, 0.3]", "[0.15]", "[0.1, 0.2, 0.3]", "[0.1, 0.15, 0.4]", "linspace(0.2, 0.5, 4)", "[0.05, 0.3, 0.35, 0.9]"]
# thin shells: radial spacing 1e-3 of the lateral cell size -> lateral faces are rectangles of aspect ratio ~1000 (finding F16)
# thick shells, picometre and micrometre scales, many shells, pairs of nearly coincident shells
HOSTILE = ["[0.1, 10]", "[0.001, 0.002, 0.004]", "[100, 150, 300]", "linspace(0.2, 0.4, 10)", "[0.2, 0.2001, 0.4, 0.4002]", "range(1, 3, 0.25)"]
THIN = ["[1, 1.0005, 1.001]", "[0.5, 0.501, 0.502]", "[0.3, 0.3002]"]


def configs(tier):
    out = []
    if tier == "quick":
        for alg in ("ico", "cube3D", "randomS"):
            for N in (4, 5, 6, 7, 8, 12, 13, 20, 26, 27, 42):
                out.append((alg, N, RADIAL[0]))
        for alg, N in (("ico", 42), ("cube3D", 26), ("ico", 12), ("cube3D", 8), ("randomS", 30), ("cube3D", 98), ("ico", 60), ("randomS", 9)):
            for t in RADIAL[1:5]:
                out.append((alg, N, t))
        for alg, N in (("ico", 42), ("randomS", 30), ("cube3D", 26), ("ico", 20)):
            for t in THIN:
                out.append((alg, N, t))
        for k, (alg, N) in enumerate((("ico", 20), ("randomS", 42), ("cube3D", 8), ("ico", 80), ("randomS", 8), ("cube3D", 42))):
            out.append((alg, N, HOSTILE[k]))
    else:
        for alg in ("ico", "cube3D", "randomS"):
            for N in range(4, 61):
                for t in RADIAL:
                    out.append((alg, N, t))
        for alg, N in (("ico", 162), ("cube3D", 98), ("randomS", 100)):
            out.append((alg, N, RADIAL[0]))
        for alg in ("ico", "cube3D", "randomS"):
            for N in (8, 12, 20, 26, 30, 42, 60):
                for t in THIN:
                    out.append((alg, N, t))
            for N in (8, 20, 42, 80, 100, 162):
                for t in HOSTILE:
                    out.append((alg, N, t))
    return out


def shards(tier, seed):
    nsh = 12 if tier == "quick" else 32
    return [{"nshards": nsh, "shard": i} for i in range(nsh)]


def run_shard(spec):
    geom3.install()
    PositionGrid = install()
    rng = random.Random(spec.get("seed", 0) * 100 + spec["shard"])
    for k, (alg, N, t) in enumerate(configs(spec["tier"])):
        if k % spec["nshards"] == spec["shard"]:
            drive(PositionGrid, alg, N, t, rng)


def replay(case):
    geom3.install()
    PositionGrid = install()
    alg, N = case["o"].split("_")
    drive(PositionGrid, alg, int(N), case["t"], random.Random(0))
