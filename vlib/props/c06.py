"""C06 - Cartesian position mode reports the Euclidean Voronoi cell geometry.

Monitors: postconditions on the real PositionGrid getters when position_grid_cartesian=True.  Oracle: vlib.oracles.euclid on the
harness' own point set (directions x radii plus the extra outer shell), validated on sampled faces by qhull-free half-plane clipping.
"""
import random

import numpy as np

from vlib import attach, geom3
from vlib.oracles import euclid
from vlib.props import c16
from vlib.props.c02 import origin_inside_hull
from vlib.rec import REC

ID = "C06"
LEVEL = "exploration"
DECIDING = ["C06.volumes", "C06.borders", "C06.distances", "C06.order_points"]
RULE = ("Cartesian position grids: direction algorithm in {ico, cube3D, randomS}, quick ~60 (N, radii) configurations incl. ico_42, cube3D_26 "
        "(centrally symmetric faces), thin-shell radial grids (spacing 1e-3 of the radius) and the small non-surrounding sets; thorough every N in 4..60 x 6 radial grids (1-4 radii, equal and unequal "
        "increments); 16 (160) seed-dependent configurations with N up to 200, 2-4 shells and the flag passed as True / np.True_ / 1 / a numpy comparison result / a 0-d array; "
        "order_points itself is monitored (cyclic order of every planar convex face it is given, also inside the grid runs) and called directly on 1500 (20000) hostile polygons per shard. The three getters (+ adjacency) are called on each object. Non-trivial = direction set surrounding the origin with >=2 "
        "shells; distinct by (algorithm, N, radial text)")
ASSUMPTIONS = ["coplanar direction sets are outside the quantifier (skipped, counted)",
               "areas/volumes compared at rtol max(1e-11, 2e-15 (R_max/d_min)^2) - the measured agreement on the unchanged tree is ~1e-16 (R_max/d_min)^2 - plus 1e-11 of the largest face for areas; distances at 1e-10",
               "the qhull-based oracle numbers are cross-checked per grid against pure half-plane clipping on sampled faces",
               "open Euclidean cells (direction set does not surround the origin) are known finding F10"]
EXHAUSTIVE = {"quick": False, "thorough": False}
MIN_NONTRIVIAL = {"quick": 25, "thorough": 250}
SHARD_TIMEOUT = {"quick": 900, "thorough": 7200}
_CACHE = {}


def expected(self):
    D = np.asarray(self.get_o_grid().get_grid_as_array(), dtype=float)
    text = self.t_grid.user_input
    got = c16.expected_array(text) if isinstance(text, str) else None
    r = np.array([float(v * 10) for v in got[0]]) if got is not None and not got[2] else np.asarray(self.get_radii(), dtype=float)
    key = (D.tobytes(), r.tobytes())
    if key not in _CACHE:
        if len(_CACHE) > 8:
            _CACHE.clear()
        extra = r[-1] + (r[-1] - r[-2] if len(r) > 1 else r[-1])
        rr = np.concatenate([r, [extra]])
        pts = np.vstack([D * x for x in rr])
        cells = euclid.voronoi_cells(pts)
        cells["points"] = pts
        cells["n"] = len(D) * len(r)
        # conditioning of the cell geometry: largest radius over the smallest distance between two neighbouring points. Face vertices are
        # intersections of bisector planes; their rounding error (in qhull, in the repository and in this oracle alike) grows with its square
        nn = [np.linalg.norm(pts[i] - pts[j]) for (i, j) in cells["face"] if i < j]
        cond = float(np.abs(pts).max() / min(nn)) if nn else 1.0
        cells["rtol"] = max(1e-11, 2e-15 * cond ** 2)
        cells["face_scale"] = max(cells["face"].values()) if cells["face"] else 1.0
        cells["surrounds"] = origin_inside_hull(D)
        cells["coplanar"] = np.linalg.matrix_rank(D - D.mean(axis=0), tol=1e-9) < 3 and np.linalg.matrix_rank(D, tol=1e-9) < 3
        _CACHE[key] = cells
    return _CACHE[key]


def _applicable(self, mon):
    if not bool(getattr(self, "position_grid_cartesian", False)):
        return None
    if self.get_o_grid().get_N() < 4:
        REC.skip(mon, "fewer than four directions (outside the quantifier)")
        return None
    e = expected(self)
    if e["coplanar"]:
        REC.skip(mon, "coplanar direction set (outside the quantifier)")
        return None
    return e


def _clip_volume(e, i):
    """cell volume without qhull: every bisector face of cell i by half-plane clipping, cones from the site"""
    pts = e["points"]
    vol = 0.0
    for j in range(len(pts)):
        if j == i:
            continue
        a = euclid.clip_face_area(pts, i, j)
        if not np.isfinite(a):
            return np.inf
        vol += a * np.linalg.norm(pts[i] - pts[j]) / 6
    return vol


def _fail(mon, self, problems, e, open_only):
    REC.fail(mon, {"o": self.get_o_grid().get_name(with_dim=False), "t": self.t_grid.user_input, "problems": problems[:4],
                   "direction_set_surrounds_origin": e["surrounds"]},
             mechanism="cartesian_open_cells" if (open_only and not e["surrounds"]) else None)


def cartesian_volumes_are_voronoi_volumes(self, result):
    mon = "C06.volumes"
    try:
        e = _applicable(self, mon)
        if e is None:
            return True
        n = e["n"]
        v = np.asarray(result, dtype=float)
        problems, open_only = [], True
        arbitrated, oracle_unreliable = 0, False
        if v.shape != (n,):
            problems.append(f"shape {v.shape} != {(n,)}")
            open_only = False
        else:
            want = e["volume"][:n]
            for i in range(n):
                if e["open"][i]:
                    if not (v[i] > 0):
                        problems.append({"cell": i, "reported": v[i], "problem": "Euclidean cell is unbounded; no positive volume reported"})
                elif not (v[i] > 0) or not np.isclose(v[i], want[i], rtol=e["rtol"]):
                    # qhull is common-mode with the repository and can itself go wrong on nearly degenerate point sets (merged facets):
                    # a disagreement is arbitrated by the qhull-free clipping oracle (first cells only: it costs O(M^2) per cell)
                    if arbitrated < 3 and len(e["points"]) <= 1200 and v[i] > 0:
                        arbitrated += 1
                        vc = _clip_volume(e, i)
                        if np.isfinite(vc) and np.isclose(v[i], vc, rtol=max(e["rtol"], 1e-9)):
                            REC.notes["C06 qhull oracle disagreed, qhull-free clipping agrees with the repository (not a violation)"] += 1
                            oracle_unreliable = True
                            continue
                        problems.append({"cell": i, "reported": v[i], "voronoi_volume": want[i], "clipping_volume": vc})
                        open_only = False
                    elif oracle_unreliable:
                        REC.notes["C06 further cells of a grid whose qhull oracle is unreliable (not judged)"] += 1
                    else:
                        problems.append({"cell": i, "reported": v[i], "voronoi_volume": want[i]})
                        open_only = False
        if problems:
            _fail(mon, self, problems, e, open_only)
        else:
            REC.ok(mon)
    except Exception as ex:
        REC.crashed("C06.oracle_error", ex)
    return True


def _pairs(self, result, what):
    mon = f"C06.{what}"
    try:
        e = _applicable(self, mon)
        if e is None:
            return True
        n = e["n"]
        c = result.tocoo()
        problems, open_only = [], True
        if c.shape != (n, n):
            problems.append(f"shape {c.shape}")
            open_only = False
        else:
            pts = e["points"]
            D = c.toarray().astype(float)
            stored = set(zip(c.row.tolist(), c.col.tolist()))
            adj = self.get_adjacency_of_position_grid().tocoo()
            adjset = set(zip(adj.row.tolist(), adj.col.tolist()))
            if stored != adjset:
                problems.append({"pattern_differs_from_adjacency": len(stored ^ adjset)})
                open_only = False
            if any(i == j for i, j in stored):
                problems.append("stored diagonal entries")
                open_only = False
            for (i, j), val in zip(zip(c.row.tolist(), c.col.tolist()), np.asarray(c.data, dtype=float)):
                involves_open = bool(e["open"][i] or e["open"][j])
                if what == "distances":
                    want = np.linalg.norm(pts[i] - pts[j])
                    if not np.isclose(val, want, rtol=1e-10) or not val > 0:
                        problems.append({"pair": [i, j], "reported": val, "euclidean_distance": want})
                        open_only = False
                else:
                    want = e["face"].get((i, j))
                    if want is None:
                        # the common face of two open cells is unbounded: any positive number (or an error) would do; a stored value
                        # <= 0 is the known finding F10, nothing else about this pair can be judged
                        if not (val > 0):
                            problems.append({"pair": [i, j], "reported": val, "voronoi_face": "unbounded", "a_cell_is_open": True})
                        else:
                            REC.notes["C06 unbounded faces with a positive reported area (not judged)"] += 1
                    elif not (val > 0) or not np.isfinite(val) or not np.isclose(val, want, rtol=e["rtol"], atol=1e-11 * e["face_scale"]):
                        # a bounded face has one area, whether or not the two cells are bounded elsewhere.  Disagreements are arbitrated
                        # by the qhull-free clipping oracle (qhull, common-mode with the repository, merges facets of nearly degenerate sets)
                        ca = euclid.clip_face_area(pts, i, j) if val > 0 and np.isfinite(val) else None
                        if ca is not None and np.isfinite(ca) and np.isclose(val, ca, rtol=max(e["rtol"], 1e-9), atol=1e-11 * e["face_scale"]):
                            REC.notes["C06 qhull oracle disagreed, qhull-free clipping agrees with the repository (not a violation)"] += 1
                        else:
                            problems.append({"pair": [i, j], "reported": val, "voronoi_face_area": want, "clipping_area": ca, "a_cell_is_open": involves_open})
                            open_only = False
                if D[i, j] != D[j, i] and not np.isclose(D[i, j], D[j, i], rtol=1e-9):
                    problems.append({"not_symmetric": [i, j]})
                    open_only = False
                if len(problems) > 6:
                    break
        if problems:
            _fail(mon, self, problems, e, open_only)
        else:
            REC.ok(mon)
    except Exception as ex:
        REC.crashed("C06.oracle_error", ex)
    return True


def cartesian_borders_are_face_areas(self, result):
    return _pairs(self, result, "borders")


def cartesian_distances_are_euclidean(self, result):
    return _pairs(self, result, "distances")


def _plane_coordinates(P):
    """own plane fit: centroid + two in-plane axes from the SVD; -> (2-D coordinates, out-of-plane residual, in-plane size)"""
    c = P.mean(axis=0)
    u, sv, vt = np.linalg.svd(P - c)
    return (P - c) @ vt[:2].T, (sv[2] if len(sv) > 2 else 0.0), sv[0]


def _hull_order(Y, margin):
    """indices of the points of Y (n,2) in counter-clockwise hull order when every point is a clear hull vertex, else None"""
    n = len(Y)
    c = Y.mean(axis=0)
    ang = np.arctan2(Y[:, 1] - c[1], Y[:, 0] - c[0])     # the centroid of points in convex position is strictly inside
    order = np.argsort(ang)
    for k in range(n):
        a, b, d = Y[order[k - 1]], Y[order[k]], Y[order[(k + 1) % n]]
        cr = (b[0] - a[0]) * (d[1] - b[1]) - (b[1] - a[1]) * (d[0] - b[0])
        if cr <= margin * np.linalg.norm(b - a) * np.linalg.norm(d - b):
            return None           # not convex position, or a vertex too close to the line through its neighbours to call
    return order


def ordered_points_go_round_the_polygon(polygon_points_3d, result):
    """order_points on a planar polygon in convex position: the answer is the same rows in cyclic order (either sense, any start)"""
    mon = "C06.order_points"
    try:
        P = np.asarray(polygon_points_3d, dtype=float)
        if P.ndim != 2 or P.shape[1] != 3 or len(P) < 4:
            REC.skip(mon, "fewer than four vertices (every order is cyclic)")
            return True
        Y, resid, size = _plane_coordinates(P)
        if not (size > 0) or resid > 1e-9 * size:
            REC.skip(mon, "vertices not coplanar")
            return True
        gaps = np.linalg.norm(Y[:, None, :] - Y[None, :, :], axis=2) + np.eye(len(Y)) * size
        if gaps.min() < 1e-7 * size:
            REC.ambiguous(mon, "nearly coincident vertices")
            return True
        order = _hull_order(Y, 1e-7)
        if order is None:
            REC.ambiguous(mon, "vertices not clearly in convex position")
            return True
        R = np.asarray(result, dtype=float)
        ok = R.shape == P.shape
        if ok:
            idx = []
            for row in R:
                hit = np.flatnonzero(np.all(P == row, axis=1))
                if len(hit) != 1:
                    ok = False
                    break
                idx.append(int(hit[0]))
        if ok:
            ok = sorted(idx) == list(range(len(P)))
        if ok:
            pos = {int(v): k for k, v in enumerate(order)}
            steps = {(pos[idx[(k + 1) % len(idx)]] - pos[idx[k]]) % len(idx) for k in range(len(idx))}
            ok = steps in ({1}, {len(idx) - 1})
        REC.check(mon, ok, lambda: {"vertices": P, "returned": R, "convex_order_of_input_rows": order})
    except Exception as ex:
        REC.crashed("C06.oracle_error", ex)
    return True


def drive_polygons(rng, nprng, count):
    """order_points called directly on hostile faces: 4-14 vertices on ellipses of aspect ratio up to 1000 with clustered angles, on planes
    tilted against every axis, far from the origin, at picometre to micrometre scale, rows shuffled"""
    from molgri.space import utils
    for _ in range(count):
        n = rng.randint(4, 14)
        if rng.random() < 0.5:
            ang = np.sort(nprng.uniform(0, 2 * np.pi, size=n))
        else:   # clusters: most vertices crowd into one or two short arcs
            centres = nprng.uniform(0, 2 * np.pi, size=rng.randint(1, 2))
            ang = np.concatenate([nprng.choice(centres, size=n - 2) + nprng.normal(0, 0.15, size=n - 2), nprng.uniform(0, 2 * np.pi, size=2)])
        aspect = 10 ** rng.uniform(0, 3) if rng.random() < 0.5 else 1.0
        Y = np.column_stack([np.cos(ang) * aspect, np.sin(ang)])
        q = nprng.normal(size=(3, 3))
        Q, _ = np.linalg.qr(q)
        scale = 10 ** rng.uniform(-3, 3)
        P = (Y @ Q[:2]) * scale + nprng.normal(size=3) * scale * rng.choice([0, 1, 30])
        nprng.shuffle(P)
        REC.begin_case({"polygon": P}, cls=["order_points direct"])
        try:
            utils.order_points(P)
        except Exception as ex:
            REC.crashed("C06.call_raised", ex)


def install():
    from molgri.space.fullgrid import PositionGrid
    from molgri.space import utils
    import molgri.space.fullgrid  # noqa: F401  (holds an alias of order_points that must be re-bound)
    attach.ensure(utils, "order_points", ordered_points_go_round_the_polygon)
    attach.ensure(PositionGrid, "get_all_position_volumes", cartesian_volumes_are_voronoi_volumes)
    attach.ensure(PositionGrid, "get_borders_of_position_grid", cartesian_borders_are_face_areas)
    attach.ensure(PositionGrid, "get_distances_of_position_grid", cartesian_distances_are_euclidean)
    return PositionGrid


def oracle_selftest(e, rng, pg=None):
    """qhull-based face areas against qhull-free clipping on a few faces (harness self-test). Where the two oracles disagree the monitors
    arbitrate by clipping anyway; the run is only inconclusive if the repository's own value does not settle which oracle is right"""
    keys = [k for k in e["face"] if k[0] < k[1] and k[0] < e["n"] and k[1] < e["n"] and not e["open"][k[0]] and not e["open"][k[1]]]
    borders = None
    for k in rng.sample(keys, min(4, len(keys))):
        a = euclid.clip_face_area(e["points"], *k)
        if np.isclose(a, e["face"][k], rtol=max(1e-7, 10 * e["rtol"]), atol=1e-10 * e["face_scale"]):
            REC.ok("C06.oracle_selftest_clipping")
            continue
        repo = None
        try:
            if pg is not None:
                borders = pg.get_borders_of_position_grid().tocsr() if borders is None else borders
                repo = float(borders[k[0], k[1]])
        except Exception:
            repo = None
        if repo is not None and np.isclose(repo, a, rtol=max(1e-7, 10 * e["rtol"]), atol=1e-10 * e["face_scale"]):
            # qhull merged facets of a nearly degenerate point set (false alarm 13 in DESIGN section 10): clipping and the repository agree
            REC.notes["C06 qhull oracle wrong on a sampled face, clipping and the repository agree (arbitrated, not a harness problem)"] += 1
        else:
            REC.harness_problem("C06 oracle: qhull face area disagrees with half-plane clipping",
                                {"pair": list(k), "qhull": e["face"][k], "clipping": a, "repository": repo})


FLAGS = {"True": True, "np.True_": np.True_, "1": 1, "np.bool_ from a comparison": np.array([3.0]).max() > 2, "0-d array": np.array(True)}


def drive(PositionGrid, alg, N, text, rng, flag="True"):
    REC.begin_case({"o": f"{alg}_{N}", "t": text, "flag": flag}, cls=[f"alg={alg}", f"flag={flag}"], sample=(N in (12, 26)))
    try:
        pg = PositionGrid(o_grid_name=f"{alg}_{N}", t_grid_name=text, position_grid_cartesian=FLAGS[flag])
        before = sum(REC.monitors[m]["calls"] + REC.monitors[m]["skipped"] for m in DECIDING)
        calls = [pg.get_all_position_volumes, pg.get_borders_of_position_grid, pg.get_distances_of_position_grid, pg.get_adjacency_of_position_grid]
        rng.shuffle(calls)
        from vlib.rec import call_and_hold
        call_and_hold(calls, "C06.returned_object_stable", hostile_caller=True)
        if sum(REC.monitors[m]["calls"] + REC.monitors[m]["skipped"] for m in DECIDING) == before:
            # the mode-specific monitors did not fire: the object does not consider itself Cartesian although it was requested so
            REC.fail("C06.volumes", {"o": f"{alg}_{N}", "t": text, "problem": "grid requested with position_grid_cartesian=True is not served "
                                     "by the Cartesian cell model", "flag": bool(getattr(pg, "position_grid_cartesian", None))})
        e = expected(pg)
        if e["surrounds"] and pg.t_grid.get_N_trans() >= 2:
            REC.nontrivial_case((alg, N, text))
        if not e["surrounds"]:
            REC.classes["direction set does not surround the origin"] += 1
        oracle_selftest(e, rng, pg)
    except Exception as ex:
        REC.crashed("C06.call_raised", ex)


RADIAL = ["[0.2, 0.3]", "[0.15]", "[0.1, 0.2, 0.3]", "[0.1, 0.15, 0.4]", "linspace(0.2, 0.5, 4)", "[0.05, 0.3, 0.35, 0.9]"]
# thin shells: radial spacing 1e-3 of the lateral cell size -> lateral faces are rectangles of aspect ratio ~1000 (finding F16)
# thick shells, picometre and micrometre scales, many shells, pairs of nearly coincident shells
HOSTILE = ["[0.1, 10]", "[0.001, 0.002, 0.004]", "[100, 150, 300]", "linspace(0.2, 0.4, 10)", "[0.2, 0.2001, 0.4, 0.4002]", "range(1, 3, 0.25)"]
THIN = ["[1, 1.0005, 1.001]", "[0.5, 0.501, 0.502]", "[0.3, 0.3002]"]
# thin shells far out: radial spacing 1e-5 of the radius (sums of squares cancel there)
THIN_FAR = ["[100, 100.001]", "linspace(30, 30.001, 5)", "[5, 5.0001, 5.0003]"]


def configs(tier):
    out = []
    if tier == "quick":
        for alg in ("ico", "cube3D", "randomS"):
            for N in (4, 5, 6, 7, 8, 12, 13, 20, 26, 27, 42):
                out.append((alg, N, RADIAL[0]))
        for alg, N in (("ico", 42), ("cube3D", 26), ("ico", 12), ("cube3D", 8), ("randomS", 30), ("cube3D", 98), ("ico", 60), ("randomS", 9)):
            for t in RADIAL[1:5]:
                out.append((alg, N, t))
        for alg, N in (("ico", 42), ("randomS", 30), ("cube3D", 26), ("ico", 20)):
            for t in THIN:
                out.append((alg, N, t))
        for k, (alg, N) in enumerate((("ico", 20), ("randomS", 42), ("cube3D", 8), ("ico", 80), ("randomS", 8), ("cube3D", 42))):
            out.append((alg, N, HOSTILE[k]))
        for k, (alg, N) in enumerate((("ico", 42), ("randomS", 30), ("cube3D", 26))):
            out.append((alg, N, THIN_FAR[k]))
    else:
        for alg in ("ico", "cube3D", "randomS"):
            for N in range(4, 61):
                for t in RADIAL:
                    out.append((alg, N, t))
        for alg, N in (("ico", 162), ("cube3D", 98), ("randomS", 100)):
            out.append((alg, N, RADIAL[0]))
        for alg in ("ico", "cube3D", "randomS"):
            for N in (8, 12, 20, 26, 30, 42, 60):
                for t in THIN:
                    out.append((alg, N, t))
            for N in (8, 20, 42, 80, 100, 162):
                for t in HOSTILE:
                    out.append((alg, N, t))
            for N in (12, 42, 60):
                for t in THIN_FAR:
                    out.append((alg, N, t))
    return out


def drive_big_distances(PositionGrid):
    """one grid with more than 2^31/46340 ... cells: 162 directions x 300 shells = 48600 cells, where products of two cell indices leave
    the 32-bit range of the sparse index arrays. Only the distance getter is affordable at this size (and judged against the points)."""
    REC.begin_case({"o": "ico_162", "t": "linspace(1, 30, 300)", "only": "distances"}, cls=["48600 cells, distances only"])
    try:
        pg = PositionGrid(o_grid_name="ico_162", t_grid_name="linspace(1, 30, 300)", position_grid_cartesian=True)
        pg.get_distances_of_position_grid()
        REC.nontrivial_case(("ico", 162, "linspace(1, 30, 300)", "distances only"))
    except Exception as ex:
        REC.crashed("C06.call_raised", ex)


def random_configs(tier, seed):
    """seed-dependent part: other N (also the 100-200 range where cube3D grids have irregular eight-cornered faces), radial grids with
    three and more shells, and the truthy spellings of the flag a caller may hand over"""
    rng = random.Random(seed * 9176 + 11)
    out = []
    for _ in range(16 if tier == "quick" else 160):
        alg = rng.choice(["ico", "cube3D", "cube3D", "randomS"])
        N = rng.choice([rng.randint(4, 60), rng.randint(61, 120), rng.randint(121, 200)])
        T = rng.randint(2, 4)
        r = [rng.randint(5, 150) / 100]
        for _ in range(T - 1):
            r.append(round(r[-1] + rng.choice([0.05, 0.1, 0.1, 0.25, 1.0]), 4))
        out.append((alg, N, "[" + ", ".join(str(x) for x in r) + "]", rng.choice(list(FLAGS))))
    return out


def shards(tier, seed):
    nsh = 12 if tier == "quick" else 32
    return [{"nshards": nsh, "shard": i, "seed": seed} for i in range(nsh)] + ([{"big_distances": True}] if tier == "thorough" else [])


def run_shard(spec):
    geom3.install()
    PositionGrid = install()
    if spec.get("big_distances"):
        return drive_big_distances(PositionGrid)
    rng = random.Random(spec.get("seed", 0) * 100 + spec["shard"])
    nprng = np.random.default_rng(spec.get("seed", 0) * 100 + spec["shard"])
    drive_polygons(rng, nprng, 1500 if spec["tier"] == "quick" else 20000)
    for k, (alg, N, t) in enumerate(configs(spec["tier"])):
        if k % spec["nshards"] == spec["shard"]:
            drive(PositionGrid, alg, N, t, rng)
            if t.startswith("[") and rng.random() < 0.4:
                # near twin in the same process: same directions, last radius moved in its 8th digit (4e-7 nm), and the spherical-shell grid
                # of the same name - nothing computed for one grid may be served to another
                vals = t.strip("[]").split(",")
                twin = "[" + ",".join(vals[:-1] + [" " + repr(round(float(vals[-1]) + 4e-7, 9))]) + "]"
                PositionGrid(o_grid_name=f"{alg}_{N}", t_grid_name=t, position_grid_cartesian=False).get_all_position_volumes()
                drive(PositionGrid, alg, N, twin, rng)
                drive(PositionGrid, alg, N, t, rng)
    for k, (alg, N, t, flag) in enumerate(random_configs(spec["tier"], spec.get("seed", 0))):
        if k % spec["nshards"] == spec["shard"]:
            drive(PositionGrid, alg, N, t, rng, flag)


def replay(case):
    geom3.install()
    PositionGrid = install()
    if "polygon" in case:
        from molgri.space import utils
        REC.begin_case(case)
        utils.order_points(np.array(case["polygon"], dtype=float))
        return
    alg, N = case["o"].split("_")
    drive(PositionGrid, alg, int(N), case["t"], random.Random(0), case.get("flag", "True"))
