"""C10 - pseudotrajectory frame k is the rigid placement prescribed by grid row k.

Monitors: postconditions on Pseudotrajectory.__init__ (snapshot of the two reference geometries), Pseudotrajectory.get_pt_as_universe and
PtWriter.__init__ (the path the workflow uses).  Oracle: own scalar-last quaternion -> matrix formula and the rigid placement formula.
"""
import os
import random
import shutil
import tempfile

import numpy as np

from vlib import attach
from vlib.rec import REC

ID = "C10"
LEVEL = "exploration"
DECIDING = ["C10.frames"]
RULE = ("molecule pairs written by the harness as .xyz/.gro/.pdb (1-12 atoms of H/C/N/O: single atoms, collinear, planar, non-planar, off-centre "
        "files) plus input/H2O.gro, read through OneMoleculeReader; grid arrays: real FullGrid arrays and non-grid arrays of random unit "
        "quaternions (both signs, pools of repeated orientations in arbitrary order, near-identity rotations, re-sorted / thinned grid rows, whole-Angstrom lattices with integer-component quaternions handed over as int64/int32 arrays or nested lists of ints) "
        "with positions up to 50 A, 1-60 rows; one array of 3000-4000 rows 20-60 A from the origin per run (thorough 4); structure files of every second set-up overwrite those of an earlier one; routes: Pseudotrajectory directly (also: first request fails on an unfilled row, the caller completes it in place and asks again), the generator with frames retained by the caller, PtWriter from a saved .npy, PtWriter after write_structure "
        "with the written xyz file read back. "
        "Every frame of every pseudotrajectory is judged. Non-trivial = second molecule with >=2 atoms and >=2 rows; distinct by (molecules, array digest)")
ASSUMPTIONS = ["coordinates pass through MDAnalysis float32 storage: tolerance 5e-5 A + 4e-7*|x|", "centres of mass use MDAnalysis' own guessed masses",
               "a Pseudotrajectory object is generated once (the documented use)"]
EXHAUSTIVE = {"quick": False, "thorough": False}
MIN_NONTRIVIAL = {"quick": 15, "thorough": 600}
SHARD_TIMEOUT = {"quick": 900, "thorough": 3600}


def quat_to_matrix(q):
    x, y, z, w = q / np.linalg.norm(q)
    return np.array([[1 - 2 * (y * y + z * z), 2 * (x * y - z * w), 2 * (x * z + y * w)],
                     [2 * (x * y + z * w), 1 - 2 * (x * x + z * z), 2 * (y * z - x * w)],
                     [2 * (x * z - y * w), 2 * (y * z + x * w), 1 - 2 * (x * x + y * y)]])


# coordinates live in MDAnalysis float32 arrays: every operation on a coordinate of magnitude m costs ~6e-8 m; the base term covers
# the few operations at small magnitudes (measured on the unchanged tree: worst error 2e-6 A at 60 A, 4e-7 A near the origin)
BASE_TOL = float(os.environ.get("VERIF_C10_BASE_TOL", "5e-6"))


def snapshot_references(self, molecule1, molecule2, full_grid):
    try:
        self._verif_ref = {
            "x1": np.array(self.static_molecule.atoms.positions, dtype=float), "x2": np.array(self.moving_molecule.atoms.positions, dtype=float),
            "m2": np.array(self.moving_molecule.atoms.masses, dtype=float),
            "names": [str(n) for n in self.static_molecule.atoms.names] + [str(n) for n in self.moving_molecule.atoms.names],
            "types": [str(n) for n in self.static_molecule.atoms.types] + [str(n) for n in self.moving_molecule.atoms.types],
            "grid": np.array(full_grid, dtype=float)}
        REC.ok("C10.reference_snapshot")
    except Exception as e:
        REC.crashed("C10.oracle_error", e)
    return True


def judge_universe(u, ref, where, base=None):
    mon = "C10.frames"
    BASE_TOL = globals()["BASE_TOL"] if base is None else base
    x1, x2, m2, grid = ref["x1"], ref["x2"], ref["m2"], ref["grid"]
    n1, n2 = len(x1), len(x2)
    problems = []
    if len(u.trajectory) != len(grid):
        problems.append(f"{len(u.trajectory)} frames for {len(grid)} grid rows")
    if len(u.atoms) != n1 + n2:
        problems.append(f"{len(u.atoms)} atoms, expected {n1}+{n2}")
    if not problems:
        if [str(n) for n in u.atoms.names] != ref["names"] or [str(t) for t in u.atoms.types] != ref["types"]:
            problems.append({"atom order/names/types differ": [str(n) for n in u.atoms.names][:12], "expected": ref["names"][:12]})
        com = (x2 * m2[:, None]).sum(axis=0) / m2.sum()
        d_ref = np.linalg.norm(x2[:, None] - x2[None], axis=2)
        for k, ts in enumerate(u.trajectory):
            pos = np.array(u.atoms.positions, dtype=float)
            R = quat_to_matrix(grid[k, 3:])
            want2 = (x2 - com) @ R.T + com + grid[k, :3]
            tol1 = BASE_TOL + 4e-7 * np.abs(x1).max() if n1 else 0
            tol2 = BASE_TOL + 4e-7 * (np.abs(want2).max() + np.abs(x2).max())
            if n1 and np.abs(pos[:n1] - x1).max() > tol1:
                problems.append({"frame": k, "first molecule moved by": float(np.abs(pos[:n1] - x1).max())})
            err = np.abs(pos[n1:] - want2).max()
            if err > tol2:
                a = int(np.argmax(np.abs(pos[n1:] - want2).max(axis=1)))
                problems.append({"frame": k, "atom": a, "position": pos[n1 + a], "expected": want2[a], "row": grid[k]})
            d = np.linalg.norm(pos[n1:, None] - pos[None, n1:], axis=2)
            if np.abs(d - d_ref).max() > 2 * tol2:
                problems.append({"frame": k, "intramolecular distances changed by": float(np.abs(d - d_ref).max())})
            if len(problems) > 3:
                break
    if problems:
        REC.fail(mon, {"where": where, "n1": n1, "n2": n2, "rows": len(grid), "problems": problems[:4], "x2_ref": x2[:6]})
    else:
        REC.ok(mon)
        REC.extra["frames_judged"] = REC.extra.get("frames_judged", 0) + len(grid)


def judge_retained_frames(frames, ref, where):
    """frames = list(generate_pseudotrajectory()) kept by the caller: indices 0,1,2,... and every RETAINED frame still holds its own placement"""
    mon = "C10.frames"
    x1, x2, m2, grid = ref["x1"], ref["x2"], ref["m2"], ref["grid"]
    n1 = len(x1)
    problems = []
    if len(frames) != len(grid):
        problems.append(f"{len(frames)} frames for {len(grid)} rows")
    if [int(i) for i, _ in frames] != list(range(len(frames))):
        problems.append({"frame indices": [int(i) for i, _ in frames][:10]})
    com = (x2 * m2[:, None]).sum(axis=0) / m2.sum()
    for k, (_, u) in enumerate(frames[:len(grid)]):
        pos = np.array(u.atoms.positions, dtype=float)
        want2 = (x2 - com) @ quat_to_matrix(grid[k, 3:]).T + com + grid[k, :3]
        tol = BASE_TOL + 4e-7 * (np.abs(want2).max() + np.abs(x2).max())
        if pos.shape != (n1 + len(x2), 3) or np.abs(pos[n1:] - want2).max() > tol or (n1 and np.abs(pos[:n1] - x1).max() > tol):
            problems.append({"retained frame": k, "second molecule off by": float(np.abs(pos[n1:] - want2).max()) if pos.shape == (n1 + len(x2), 3) else None})
            if len(problems) > 3:
                break
    if problems:
        REC.fail(mon, {"where": where, "rows": len(grid), "problems": problems})
    else:
        REC.ok(mon)


def pt_frames_are_rigid_placements(self, result):
    try:
        ref = getattr(self, "_verif_ref", None)
        if ref is None:
            REC.skip("C10.frames", "no reference snapshot")
            return True
        judge_universe(result, ref, "Pseudotrajectory.get_pt_as_universe")
    except Exception as e:
        REC.crashed("C10.oracle_error", e)
    return True


def ptwriter_snapshot(self, path_molecule1, path_molecule2, cell_size_A, path_grid):
    """records the reference geometries only; it must not touch self.pt_universe (a monitor may not change when things are built)"""
    try:
        grid = np.load(path_grid)
        self._verif_ref = {"x1": np.array(self.central_molecule.atoms.positions, dtype=float),
                           "x2": np.array(self.moving_molecule.atoms.positions, dtype=float),
                           "m2": np.array(self.moving_molecule.atoms.masses, dtype=float),
                           "names": [str(n) for n in self.central_molecule.atoms.names] + [str(n) for n in self.moving_molecule.atoms.names],
                           "types": [str(n) for n in self.central_molecule.atoms.types] + [str(n) for n in self.moving_molecule.atoms.types],
                           "grid": np.array(grid, dtype=float)}
        c2 = self.moving_molecule.atoms.center_of_mass()
        c1 = self.central_molecule.atoms.center_of_mass()
        REC.check("C10.writer_centres_molecules", np.abs(c1).max() < 1e-4 and np.abs(c2).max() < 1e-4, {"com1": c1, "com2": c2})
    except Exception as e:
        REC.crashed("C10.oracle_error", e)
    return True


def written_pt_is_rigid_placement(self, path_output_pt, path_output_structure):
    """what the workflow keeps is the FILE: read it back and judge every frame (xyz keeps 5 decimals)"""
    try:
        import MDAnalysis as mda
        ref = getattr(self, "_verif_ref", None)
        if ref is None or not str(path_output_pt).endswith("xyz"):
            REC.skip("C10.frames", "written trajectory not readable by the monitor")
            return True
        try:
            u = mda.Universe(path_output_pt)
        except Exception as e:
            if any("DUMMY" in t or t in ("MW", "") for t in ref["types"]):
                # the xyz format has no representation for a massless site's element: MDAnalysis cannot read such a file back
                REC.skip("C10.frames", "written xyz with a massless site cannot be read back by MDAnalysis")
                return True
            raise e
        ref2 = dict(ref)
        ref2["names"] = [str(n) for n in u.atoms.names]   # file formats rename atoms: order/positions are judged, names are judged in memory
        ref2["types"] = [str(t) for t in u.atoms.types]
        judge_universe(u, ref2, "PtWriter.write_full_pt (file read back)", base=5e-5)   # the xyz writer keeps 5 decimals
    except Exception as e:
        REC.crashed("C10.oracle_error", e)
    return True


WRITTEN = {}     # abspath -> (coordinates the harness wrote there last, precision of the file format in A)


def reader_returns_what_the_file_holds(self, path_molecule, center_com, result):
    """the reference geometry IS what the structure file holds when the reader is built (the harness knows what it wrote there last):
    shape of the molecule compared through the matrix of interatomic distances, which the optional centring does not change"""
    mon = "C10.reader"
    try:
        rec = WRITTEN.get(os.path.abspath(str(path_molecule)))
        if rec is None:
            REC.skip(mon, "file not written by the harness")
            return True
        X, prec = rec
        pos = np.array(self.get_molecule().atoms.positions, dtype=float)
        ok = pos.shape == X.shape
        if ok:
            d = np.linalg.norm(pos[:, None] - pos[None], axis=2)
            dw = np.linalg.norm(X[:, None] - X[None], axis=2)
            ok = np.abs(d - dw).max() <= 4 * prec + 1e-5
        REC.check(mon, ok, lambda: {"path": os.path.basename(str(path_molecule)), "read": pos[:6], "written_last": X[:6]})
        if center_com:
            # "read through the package's reader (centred at their centre of mass)": the mass-weighted centre - massless sites do not count -
            # is at the origin, which is what makes 'translate by the row position' put the centre of mass AT the row position
            m = np.array(self.get_molecule().atoms.masses, dtype=float)
            if m.sum() > 0:
                com = (pos * m[:, None]).sum(axis=0) / m.sum()
                REC.check("C10.reader_centres_at_com", np.abs(com).max() < 1e-4 + 4e-7 * np.abs(X).max(),
                          lambda: {"path": os.path.basename(str(path_molecule)), "centre_of_mass_after_reading": com, "masses": m})
    except Exception as e:
        REC.crashed("C10.oracle_error", e)
    return True


def install():
    from molgri.molecules import pts
    import molgri.io as io
    attach.ensure(io.OneMoleculeReader, "__init__", reader_returns_what_the_file_holds)
    attach.ensure(pts.Pseudotrajectory, "__init__", snapshot_references)
    attach.ensure(pts.Pseudotrajectory, "get_pt_as_universe", pt_frames_are_rigid_placements)
    attach.ensure(io.PtWriter, "__init__", ptwriter_snapshot)
    attach.ensure(io.PtWriter, "write_full_pt", written_pt_is_rigid_placement)
    return pts, io


# --------------------------------------------------------------------------------------- molecule files
ELEMENTS = ["H", "C", "N", "O"]


def make_geometry(rng, nprng, kind, n):
    if kind == "single":
        X = np.zeros((1, 3))
    elif kind == "collinear":
        d = nprng.normal(size=3)
        d /= np.linalg.norm(d)
        X = np.outer(np.sort(nprng.uniform(-2, 2, size=n)), d)
    elif kind == "planar":
        a, b = nprng.normal(size=3), nprng.normal(size=3)
        a /= np.linalg.norm(a)
        b -= a * (a @ b)
        b /= np.linalg.norm(b)
        c = nprng.uniform(-2, 2, size=(n, 2))
        X = c[:, :1] * a + c[:, 1:] * b
    else:
        X = nprng.uniform(-2, 2, size=(n, 3))
    X = X + nprng.uniform(-5, 5, size=3) * (rng.random() < 0.6)  # off-centre files
    els = [rng.choice(ELEMENTS) for _ in range(len(X))]
    if len(X) >= 3 and rng.random() < 0.2:
        els[rng.randrange(1, len(X))] = "MW"      # a massless site (TIP4P's virtual site, a dummy atom): part of the geometry, not of the COM
    return np.round(X, 3), els


def write_molecule(path, X, els):
    ext = path.rsplit(".", 1)[1]
    WRITTEN[os.path.abspath(path)] = (np.array(X, dtype=float), 0.005 if ext == "gro" else 0.0005)
    # a third of the molecules with two or more atoms consist of two residues (gro) / two chains, i.e. two segments (pdb): a complex,
    # a dimer or a solvated ion is still ONE rigid body for the pseudotrajectory
    cut = len(X) // 2 if (len(X) >= 2 and (len(X) + int(round(abs(float(X[0][0])) * 1000))) % 3 == 0) else len(X)
    if cut < len(X) and ext != "xyz":
        REC.classes[f"molecule with two residues/chains ({ext})"] += 1
    if ext == "xyz":
        with open(path, "w") as f:
            f.write(f"{len(X)}\nharness molecule\n")
            for e, p in zip(els, X):
                f.write(f"{e} {p[0]:.3f} {p[1]:.3f} {p[2]:.3f}\n")
    elif ext == "gro":
        with open(path, "w") as f:
            f.write("harness molecule\n%5d\n" % len(X))
            for i, (e, p) in enumerate(zip(els, X)):
                f.write("%5d%-5s%5s%5d%8.3f%8.3f%8.3f\n" % (1 if i < cut else 2, "MOL" if i < cut else "LIG", f"{e}{i + 1}"[:5], i + 1, p[0] / 10, p[1] / 10, p[2] / 10))
            f.write("   3.00000   3.00000   3.00000\n")
    else:
        with open(path, "w") as f:
            for i, (e, p) in enumerate(zip(els, X)):
                f.write("ATOM  %5d %-4s %3s %1s%4d    %8.3f%8.3f%8.3f  1.00  0.00          %2s\n" % (
                    i + 1, f"{e}{i + 1}"[:4], "MOL" if i < cut else "LIG", "A" if i < cut else "B", 1 if i < cut else 2, p[0], p[1], p[2], e))
            f.write("END\n")


def make_array(rng, nprng, tier):
    kind = rng.choice(["fullgrid", "fullgrid_resorted", "random", "random", "pool", "near_identity", "single_row", "integer_lattice"])
    if tier.endswith("+long"):
        # thousands of rows 20-60 A from the origin: rounding left behind by one frame must not reach the next ones
        n = rng.randint(3000, 4000)
        q = nprng.normal(size=(n, 4))
        q /= np.linalg.norm(q, axis=1, keepdims=True)
        p = nprng.normal(size=(n, 3))
        p *= (nprng.uniform(20, 60, size=n) / np.linalg.norm(p, axis=1))[:, None]
        return np.hstack([p, q]), f"long_far n={n}"
    if kind == "integer_lattice":
        # whole-Angstrom positions with the eight quaternions that have integer components (identity and half turns, both signs):
        # legal rows that can be handed over as an integer array or as nested lists of Python ints
        n = rng.randint(2, 40)
        units = [[0, 0, 0, 1], [0, 0, 0, -1], [1, 0, 0, 0], [-1, 0, 0, 0], [0, 1, 0, 0], [0, -1, 0, 0], [0, 0, 1, 0], [0, 0, -1, 0]]
        rows = [[rng.randint(-9, 9), rng.randint(-9, 9), rng.randint(-9, 9)] + rng.choice(units) for _ in range(n)]
        return np.array(rows, dtype=np.int64), f"{kind} n={n}"
    if kind.startswith("fullgrid"):
        from molgri.space.fullgrid import FullGrid
        b = rng.choice(["1", "4", "8", "randomQ_5", "cube4D_9"])
        o = rng.choice(["1", "4", "ico_7", "cube3D_8", "randomS_5"])
        t = rng.choice(["[0.2]", "[0.2, 0.35]", "[0.1, 0.3, 0.5]"])
        arr = FullGrid(b, o, t).get_full_grid_as_array()
        if kind == "fullgrid_resorted" and len(arr) > 2:
            # legal non-grid arrays made of grid rows: rotation varies slowest, some rows removed
            order = np.lexsort((arr[:, 0], arr[:, 3], arr[:, 4]))
            arr = arr[order]
            keep = np.ones(len(arr), dtype=bool)
            keep[rng.sample(range(len(arr)), max(1, len(arr) // 5))] = False
            arr = arr[keep]
        return arr, f"{kind} {b} {o} {t}"
    n = 1 if kind == "single_row" else rng.randint(2, 60)
    q = nprng.normal(size=(n, 4))
    q /= np.linalg.norm(q, axis=1, keepdims=True)      # both signs occur
    if kind == "pool":
        pool = q[:rng.randint(2, 4)]
        q = pool[nprng.integers(0, len(pool), size=n)]   # repeated orientations in arbitrary order
    if kind == "near_identity":
        axis = nprng.normal(size=(n, 3))
        axis /= np.linalg.norm(axis, axis=1, keepdims=True)
        ang = 10 ** nprng.uniform(-3, -1, size=n)       # 0.06 .. 6 degrees
        q = np.hstack([axis * np.sin(ang / 2)[:, None], np.cos(ang / 2)[:, None]]) * nprng.choice([-1, 1], size=(n, 1))
    if rng.random() < 0.3:
        q[0] = [0, 0, 0, 1]
        if n > 1:
            q[1] = [0, 0, 0, -1]
    p = nprng.uniform(-50, 50, size=(n, 3)) * rng.choice([0.0, 0.1, 1.0, 1.0])
    return np.hstack([p, q]), f"{kind} n={n}"


def drive(pts, io, d, rng, nprng, tier, idx):
    k1 = rng.choice(["single", "collinear", "planar", "nonplanar"])
    k2 = rng.choice(["single", "collinear", "planar", "nonplanar", "nonplanar"])
    n1 = 1 if k1 == "single" else rng.randint(2, 12)
    n2 = 1 if k2 == "single" else rng.randint(2, 12)
    e1, e2 = rng.choice(["xyz", "gro", "pdb"]), rng.choice(["xyz", "gro", "pdb"])
    if idx % 2:
        # every second set-up overwrites the files of an earlier one (same path, same format, often the same atom count and byte size):
        # a structure file is re-read whenever a reader is built for it
        e1, e2 = rng.choice(["gro", "pdb"]), rng.choice(["gro", "pdb"])      # fixed-width formats: the rewritten file has the same size
        p1, p2 = os.path.join(d, f"m1.{e1}"), os.path.join(d, f"m2.{e2}")
        n1 = n1 if k1 == "single" else 4
        n2 = n2 if k2 == "single" else 5
    else:
        p1, p2 = os.path.join(d, f"m1_{idx}.{e1}"), os.path.join(d, f"m2_{idx}.{e2}")
    X1, el1 = make_geometry(rng, nprng, k1, n1)
    X2, el2 = make_geometry(rng, nprng, k2, n2)
    write_molecule(p1, X1, el1)
    if rng.random() < 0.15:
        p2 = os.path.join(os.environ.get("VERIF_REPO", "/repo"), "input", "H2O.gro")
        k2, n2 = "H2O.gro", 3
    else:
        write_molecule(p2, X2, el2)
    arr, desc = make_array(rng, nprng, tier)
    tier = tier.replace("+long", "")
    # the same rows in other legal forms: Fortran-ordered, a non-contiguous view, float32 (positions/quaternions good to ~1e-7)
    form = rng.choice(["c", "c", "fortran", "view", "float32"])
    if desc.startswith("integer_lattice"):
        form = rng.choice(["int64", "int32", "list_of_ints", "float64"])
        arr = {"int64": arr, "int32": arr.astype(np.int32), "list_of_ints": arr.tolist(), "float64": arr.astype(float)}[form]
    elif form == "fortran":
        arr = np.asfortranarray(arr)
    elif form == "view":
        arr = np.repeat(arr, 2, axis=0)[::2]
    elif form == "float32":
        arr = arr.astype(np.float32)
    desc += f" form={form}"
    route = rng.choice(["direct", "generator", "ptwriter", "ptwriter_then_structure", "direct_retry_after_failure"])
    if route == "direct_retry_after_failure" and not (isinstance(arr, np.ndarray) and arr.dtype == np.float64 and len(arr) >= 3 and arr.flags.writeable):
        route = "direct"
    REC.begin_case({"mol1": [k1, n1, e1], "mol2": [k2, n2, e2], "array": desc, "route": route, "rows_head": arr[:3]},
                   cls=[f"route={route}", f"mol2={k2}", f"array={desc.split()[0]}"], sample=(idx % 9 == 0))
    try:
        if route == "direct_retry_after_failure":
            # history: the caller's grid still has an unfilled row (zero quaternion) when the pseudotrajectory is first asked for; the call
            # fails, the caller completes the row in place and asks the same object again
            m1 = io.OneMoleculeReader(p1).get_molecule()
            m2 = io.OneMoleculeReader(p2).get_molecule()
            k_bad = len(arr) // 2
            good_row = arr[k_bad].copy()
            arr[k_bad, 3:] = 0.0
            pt = pts.Pseudotrajectory(m1, m2, arr)
            try:
                pt.get_pt_as_universe()
                failed = False
            except Exception:
                failed = True
            REC.classes[f"first request failed={failed}"] += 1
            arr[k_bad] = good_row
            pt._verif_ref["grid"] = np.array(arr, dtype=float)     # the harness' own knowledge of the completed grid
            if failed:
                pt.get_pt_as_universe()
        elif route == "direct":
            m1 = io.OneMoleculeReader(p1).get_molecule()
            m2 = io.OneMoleculeReader(p2).get_molecule()
            pts.Pseudotrajectory(m1, m2, arr).get_pt_as_universe()
        elif route == "generator":
            # the documented generator interface: the caller keeps the yielded frames and looks at them afterwards
            m1 = io.OneMoleculeReader(p1).get_molecule()
            m2 = io.OneMoleculeReader(p2).get_molecule()
            pt = pts.Pseudotrajectory(m1, m2, arr)
            frames = list(pt.generate_pseudotrajectory())
            judge_retained_frames(frames, pt._verif_ref, "generate_pseudotrajectory (frames retained by the caller)")
        else:
            gp = os.path.join(d, f"grid_{idx}.npy")
            np.save(gp, arr)
            w = io.PtWriter(p1, p2, cell_size_A=30.0, path_grid=gp)
            if route == "ptwriter_then_structure":
                # history: the start structure is written first (translates the moving molecule in place), the pseudotrajectory afterwards
                w.write_structure(start_distance_A=rng.choice([3.0, 5.0, 12.5]), path_output_structure=os.path.join(d, f"start_{idx}.gro"))
                w.write_full_pt(os.path.join(d, f"pt_{idx}.xyz"), os.path.join(d, f"pt_{idx}.gro"))
            judge_universe(w.pt_universe, w._verif_ref, f"PtWriter.pt_universe ({route})")
        if n2 >= 2 and len(arr) >= 2:
            REC.nontrivial_case((k1, n1, k2, n2, desc, np.asarray(arr).tobytes()[:200].hex()))
    except Exception as e:
        REC.crashed("C10.call_raised", e)


def shards(tier, seed):
    n, per = (8, 10) if tier == "quick" else (16, 150)
    return [{"rseed": seed * 1000 + i, "count": per} for i in range(n)]


def run_shard(spec):
    pts, io = install()
    rng = random.Random(spec["rseed"])
    nprng = np.random.default_rng(spec["rseed"])
    d = tempfile.mkdtemp(prefix="verif_c10_")
    try:
        for it in range(spec["count"]):
            drive(pts, io, d, rng, nprng, spec["tier"], it)
        if spec["rseed"] % 1000 < (1 if spec["tier"] == "quick" else 4):
            drive(pts, io, d, rng, nprng, spec["tier"] + "+long", 10 ** 6)
    finally:
        shutil.rmtree(d, ignore_errors=True)


def replay(case):
    raise RuntimeError("molecule files are regenerated from the seed: re-run the tier with the same VERIF_SEED")
