"""C16 - radial grids parse to sorted Angstrom radii with interleaved shell boundaries.

Monitors: postconditions on TranslationParser.__init__, get_increments, get_between_radii.  Oracle: the harness' own
exact-rational reader of the same text (fractions.Fraction), independent of numpy/literal_eval.
"""
import hashlib
import math
import random
import re
from fractions import Fraction

import numpy as np

from vlib import attach
from vlib.rec import REC

ID = "C16"
LEVEL = "exploration"
DECIDING = ["C16.parse", "C16.increments", "C16.between_radii"]
RULE = ("generated texts: single numbers, lists and tuples in any order, linspace(start, stop[, num]), range/arange with 1-3 "
        "arguments, decimals written in several styles (1, 1.0, .5, 5., 1e-1), 0-3 blanks/tabs around every token; ascending "
        "and descending parameterisations; lists with a negative entry (must be rejected); groups of syntaxes that denote the same "
        "array (hash must agree). Non-trivial = text denoting >=2 distinct positive radii; distinct by the text itself")
ASSUMPTIONS = ["range/arange parameters are generated so that (stop-start)/step is not within 1e-9 of an integer (numpy's float "
               "arange length is ambiguous there); such calls from other workloads are counted as ambiguous",
               "values compared at rtol 1e-12 against exact rational arithmetic; for range/arange an absolute term 8*n*eps*max|value| is added "
               "(numpy.arange accumulates n roundings of the step)",
               "a zero first radius and repeated radii are outside the statement (skipped, counted)"]
EXHAUSTIVE = {"quick": False, "thorough": False}
MIN_NONTRIVIAL = {"quick": 1000, "thorough": 100000}

NUM = r"[-+]?(?:\d+\.?\d*|\.\d+)(?:[eE][-+]?\d+)?"


# --------------------------------------------------------------------------------------- oracle (own reader)
def intended(text):
    """-> (list of Fractions in nm, ascending intended order, ambiguous flag) or None if the text is not understood"""
    t = text.strip()
    if "linspace" in t or "range" in t:
        m = re.fullmatch(r"\s*(linspace|arange|range)\s*\((.*)\)\s*", t, re.S)
        if not m:
            return None
        inner = m.group(2)
        parts = [p.strip() for p in inner.split(",")]
        if parts and parts[-1] == "":
            parts = parts[:-1]
        if not parts or not all(re.fullmatch(NUM, p) for p in parts):
            return None
        args = [Fraction(p) for p in parts]
        if m.group(1) == "linspace":
            if len(args) == 2:
                start, stop, num = args[0], args[1], 50
            elif len(args) == 3 and args[2].denominator == 1 and args[2] >= 0:
                start, stop, num = args[0], args[1], int(args[2])
            else:
                return None
            if num == 1:
                return [start], False
            return [start + (stop - start) * i / (num - 1) for i in range(num)], False
        if len(args) == 1:
            start, stop, step = Fraction(0), args[0], Fraction(1)
        elif len(args) == 2:
            start, stop, step = args[0], args[1], Fraction(1)
        elif len(args) == 3 and args[2] != 0:
            start, stop, step = args
        else:
            return None
        q = (stop - start) / step
        amb = abs(q - round(q)) < Fraction(1, 10 ** 9) and q.denominator != 1
        # exactly integer q is also delicate in floating point when the operands are not dyadic
        if q.denominator == 1 and any(a.denominator & (a.denominator - 1) for a in (start, stop, step)):
            amb = True
        n = max(0, math.ceil(q))
        return [start + step * i for i in range(n)], amb
    # number, list or tuple
    body = t
    if body[:1] in "[(" and body[-1:] in "])":
        body = body[1:-1]
    parts = [p.strip() for p in body.split(",")]
    if parts and parts[-1] == "":
        parts = parts[:-1]
    if not parts or not all(re.fullmatch(NUM, p) for p in parts):
        return None
    return [Fraction(p) for p in parts], False


def expected_array(text):
    got = intended(text)
    if got is None:
        return None
    vals, amb = got
    return sorted(vals), vals, amb


# --------------------------------------------------------------------------------------- monitors
def parser_yields_sorted_angstrom_radii(self, user_input):
    mon = "C16.parse"
    try:
        exp = expected_array(user_input) if isinstance(user_input, str) else None
        if exp is None:
            REC.skip(mon, "text not understood by the oracle's reader")
            return True
        svals, vals, amb = exp
        if amb:
            # the stop lies (almost) exactly a whole number of steps from the start and the operands are not exact in binary: whether the
            # last point is included is decided by rounding. Two answers are acceptable - the mathematically intended one and the documented
            # behaviour of numpy.arange on the same numbers - anything else (e.g. a running sum that lands below the stop once more) is not
            m = re.fullmatch(r"\s*(arange|range)\s*\((.*)\)\s*", user_input, re.S)
            got = np.asarray(self.trans_grid, dtype=float)
            alts = [np.array(sorted(float(v * 10) for v in vals))]
            if m:
                try:
                    alts.append(np.sort(np.arange(*[float(x) for x in m.group(2).split(",") if x.strip()], dtype=float)) * 10)
                except Exception:
                    pass
            tol = 1e-13 + 8 * max(len(got), 1) * np.finfo(float).eps * float(np.abs(got).max() if len(got) else 1.0)
            if any(a.shape == got.shape and np.allclose(got, a, rtol=1e-12, atol=tol) for a in alts):
                REC.ambiguous(mon, "arange length ambiguous in floating point (one of the two acceptable answers returned)")
            else:
                REC.fail(mon, {"text": user_input, "problems": [{"radii": got[:12], "neither the intended nor the numpy.arange answer": [a[:12] for a in alts]}]})
            return True
        if any(v < 0 for v in vals):
            REC.fail(mon, {"text": user_input, "problem": "negative distance accepted", "grid": self.trans_grid})
            return True
        want = np.array([float(v * 10) for v in svals])
        got = np.asarray(self.trans_grid, dtype=float)
        problems = []
        if got.shape != want.shape:
            problems.append(f"{len(got)} radii, intended {len(want)}")
        elif not np.allclose(got, want, rtol=1e-12, atol=1e-13 + (8 * len(want) * np.finfo(float).eps * float(np.abs(want).max())
                                                                     if "range" in user_input else 0.0)):
            # numpy.arange computes start + i*delta with delta = (start+step)-start rounded once: the error grows like
            # n * ulp(max|value|); that is floating-point arithmetic, not a parsing defect
            problems.append({"radii": got[:12], "intended_sorted_times_10": want[:12]})
        h = int(hashlib.md5(np.ascontiguousarray(got)).hexdigest()[:8], 16)
        if self.grid_hash != h or self.get_name() != f"{h}":
            problems.append({"grid_hash": self.grid_hash, "md5_prefix_of_array": h})
        if got is not self.get_trans_grid() or self.get_N_trans() != len(got):
            problems.append("getters disagree with the parsed array")
        if problems:
            REC.fail(mon, {"text": user_input, "problems": problems})
        else:
            REC.ok(mon)
    except Exception as e:
        REC.crashed("C16.oracle_error", e)
    return True


def increments_are_first_radius_then_differences(my_array, result):
    mon = "C16.increments"
    try:
        a = np.asarray(my_array, dtype=float)
        if len(a) == 0 or a[0] <= 0 or np.any(np.diff(a) <= 0):
            REC.skip(mon, "not strictly increasing positive radii")
            return True
        want = np.concatenate([[a[0]], a[1:] - a[:-1]])
        REC.check(mon, np.array_equal(np.asarray(result), want) and np.all(np.asarray(result) > 0),
                  {"radii": a[:12], "increments": np.asarray(result)[:12]})
    except Exception as e:
        REC.crashed("C16.oracle_error", e)
    return True


def between_radii_interleave(my_array, include_zero, result):
    mon = "C16.between_radii"
    try:
        a = np.asarray(my_array, dtype=float)
        if len(a) == 0 or a[0] <= 0 or np.any(np.diff(a) <= 0):
            REC.skip(mon, "not strictly increasing positive radii")
            return True
        r = np.asarray(result, dtype=float)
        if include_zero:
            if len(r) != len(a) + 1 or r[0] != 0:
                REC.fail(mon, {"radii": a[:12], "result": r[:12], "problem": "include_zero must prepend 0"})
                return True
            r = r[1:]
        if len(a) == 1:
            want = np.array([2 * a[0]])
        else:
            want = np.concatenate([(a[:-1] + a[1:]) / 2, [a[-1] + (a[-1] - a[-2]) / 2]])
        ok = len(r) == len(a) and np.allclose(r, want, rtol=1e-13, atol=0)
        if ok and len(a) > 1:
            ok = bool(np.all(a < r) and np.all(r[:-1] < a[1:]))
        REC.check(mon, ok, {"radii": a[:12], "between": r[:12], "expected": want[:12]})
    except Exception as e:
        REC.crashed("C16.oracle_error", e)
    return True


def install():
    import molgri.space.translations as tr
    attach.ensure(tr.TranslationParser, "__init__", parser_yields_sorted_angstrom_radii)
    attach.ensure(tr, "get_increments", increments_are_first_radius_then_differences)
    attach.ensure(tr, "get_between_radii", between_radii_interleave)
    return tr


# --------------------------------------------------------------------------------------- workload
def ws(rng):
    return "".join(rng.choice([" ", " ", "\t"]) for _ in range(rng.choice([0, 0, 1, 1, 2, 3])))


def render(rng, frac):
    """render a non-negative (or negative) finite-decimal Fraction in one of several literal styles"""
    sign = "-" if frac < 0 else ""
    f = abs(frac)
    d = 0
    while (f * 10 ** d).denominator != 1:
        d += 1
    style = rng.choice(["plain", "plain", "padded", "exp", "dot"])
    digits = f"{int(f * 10 ** d)}"
    if d == 0:
        s = digits
        if style == "padded":
            s += ".0"
        elif style == "dot":
            s += "."
        elif style == "exp" and digits != "0":
            s = f"{digits}e0"
    else:
        digits = digits.rjust(d + 1, "0")
        s = digits[:-d] + "." + digits[-d:]
        if style == "padded":
            s += "0"
        elif style == "dot" and s.startswith("0."):
            s = s[1:]
        elif style == "exp":
            s = f"{int(f * 10 ** d)}e-{d}"
    return sign + s


def rand_frac(rng, lo=1, hi=5000, dmax=3):
    d = rng.randint(0, dmax)
    f = Fraction(rng.randint(lo, hi), 10 ** d)
    if rng.random() < 0.15:
        f += Fraction(rng.randint(1, 999), 10 ** 9)     # digits in the 7th..9th decimal of a nanometre: they are part of the distance
    return f


def gen_list(rng, negative=False, allow_single=True):
    k = rng.choice([1, 2, 2, 3, 4, 6, 10]) if allow_single else rng.choice([2, 3, 4, 6])
    vals = set()
    while len(vals) < k:
        vals.add(rand_frac(rng))
    vals = list(vals)
    if rng.random() < 0.06 and len(vals) >= 2:
        vals.append(rng.choice(vals))  # a repeated radius: parsed as given (increments/boundaries are then outside the statement)
    rng.shuffle(vals)
    if negative:
        k = rng.randrange(len(vals))
        vals[k] = -vals[k] if rng.random() < 0.6 else -Fraction(rng.randint(1, 9), 10 ** rng.randint(9, 12))   # also tiny negatives
    o, c = rng.choice(["[]", "()"])
    if len(vals) == 1 and o == "(":
        body = render(rng, vals[0]) + ws(rng) + ","
    else:
        body = (ws(rng) + "," + ws(rng)).join(render(rng, v) for v in vals)
        if rng.random() < 0.1:
            body += ws(rng) + ","
    return ws(rng) + o + ws(rng) + body + ws(rng) + c + ws(rng), vals


def gen_text(rng):
    kind = rng.choice(["number", "list", "list", "linspace", "linspace", "range", "range"])
    if kind == "number":
        v = rand_frac(rng)
        return ws(rng) + render(rng, v) + ws(rng), kind
    if kind == "list":
        return gen_list(rng)[0], kind
    if kind == "linspace":
        a, b = sorted([rand_frac(rng, dmax=2), rand_frac(rng, dmax=2)])
        if a == b:
            b += 1
        if rng.random() < 0.12:
            a, b = b, a  # descending parameterisation
            kind = "linspace_desc"
        args = [render(rng, a), render(rng, b)]
        if rng.random() < 0.7:
            args.append(str(rng.choice([1, 2, 3, 5, 10, 50, 51])))
        return ws(rng) + "linspace" + ws(rng) + "(" + ws(rng) + (ws(rng) + "," + ws(rng)).join(args) + ws(rng) + ")" + ws(rng), kind
    # range / arange
    name = rng.choice(["range", "arange"])
    nargs = rng.choice([1, 2, 3, 3])
    while True:
        if nargs == 1:
            start, stop, step = Fraction(0), rand_frac(rng, 1, 300, 1), Fraction(1)
            args = [stop]
        elif nargs == 2:
            start, stop, step = rand_frac(rng, 1, 300, 1), rand_frac(rng, 1, 300, 1), Fraction(1)
            if start > stop:
                start, stop = stop, start
            args = [start, stop]
        else:
            start, stop = sorted([rand_frac(rng, 1, 500, 2), rand_frac(rng, 1, 500, 2)])
            step = rand_frac(rng, 1, 200, 2)
            args = [start, stop, step]
            if rng.random() < 0.1:
                args = [stop, start, -step]  # descending
                start, stop, step = stop, start, -step
                kind = "range_desc"
        q = (stop - start) / step
        if q > 400 or q <= 0:
            continue
        if q.denominator == 1 or abs(q - round(q)) < Fraction(1, 10 ** 6):
            continue  # ambiguous in floating point: not generated
        break
    return ws(rng) + name + ws(rng) + "(" + ws(rng) + (ws(rng) + "," + ws(rng)).join(render(rng, a) for a in args) + ws(rng) + ")" + ws(rng), kind


def drive(tr, text, kind, must_reject=False):
    REC.begin_case({"text": text, "kind": kind}, cls=kind, sample=(kind in ("range", "linspace") and len(text) < 40))
    try:
        tp = tr.TranslationParser(text)
    except Exception as e:
        if must_reject:
            REC.ok("C16.negative_rejected")
        else:
            REC.crashed("C16.call_raised", e)
        return None
    if must_reject:
        REC.fail("C16.negative_rejected", {"text": text, "grid": tp.get_trans_grid()})
        return None
    grid = tp.get_trans_grid()
    if len(grid) >= 1 and grid[0] > 0 and np.all(np.diff(grid) > 0):
        if len(grid) >= 2:
            REC.nontrivial_case(text)
        try:
            inc = tp.get_increments()
            br = tr.get_between_radii(grid)
            br0 = tr.get_between_radii(grid, include_zero=True)
            if len(text) % 2 == 0:
                # hostile caller: works in place on what it was handed, then the same radii are asked again (also through a new parser)
                try:
                    br /= 10
                    inc *= 3
                    br0 += 1
                except Exception:
                    pass
                tr.get_between_radii(grid)
                tr.get_between_radii(grid.copy(), include_zero=True)
                tr.TranslationParser(text).get_increments()
            s = tp.sum_increments_from_first_radius()
            REC.check("C16.sum_increments", abs(s - (grid[-1] - grid[0])) <= 1e-9 * max(1, grid[-1]), {"text": text, "sum": s})
        except Exception as e:
            REC.crashed("C16.call_raised", e)
    return tp


def drive_helpers_direct(tr, rng):
    """the two radial helpers are public functions (PositionVoronoi calls them with whatever point_radii it was given): integer arrays,
    lists and tuples of ints, float32, views and mixed lists; the radii keep odd and even spacings"""
    T = rng.randint(1, 8)
    ints = np.cumsum([rng.randint(1, 9) for _ in range(T)])
    form = rng.choice(["int64", "int32", "list_of_ints", "tuple_of_ints", "float32", "view", "mixed_list", "float64"])
    radii = {"int64": ints.astype(np.int64), "int32": ints.astype(np.int32), "list_of_ints": [int(x) for x in ints],
             "tuple_of_ints": tuple(int(x) for x in ints), "float32": ints.astype(np.float32), "view": np.repeat(ints * 0.5, 3)[::3],
             "mixed_list": [int(x) if k % 2 else float(x) + 0.25 * (k == 0) for k, x in enumerate(ints)], "float64": ints * 0.1}[form]
    REC.begin_case({"radii": np.asarray(radii).tolist(), "helper_form": form}, cls=f"helpers form={form}")
    try:
        keep = np.array(radii, dtype=float)
        tr.get_increments(radii)
        tr.get_between_radii(radii)
        tr.get_between_radii(radii, include_zero=True)
        REC.check("C16.helper_input_untouched", np.array_equal(keep, np.asarray(radii, dtype=float)), {"before": keep, "after": np.asarray(radii)})
    except Exception as e:
        REC.crashed("C16.call_raised", e)


def run_random(tr, spec):
    rng = random.Random(spec["rseed"])
    for it in range(spec["count"]):
        text, kind = gen_text(rng)
        drive(tr, text, kind)
        if it % 4 == 0:
            drive_helpers_direct(tr, rng)
        if it % 10 == 0:
            text, _ = gen_list(rng, negative=True)
            for _ in range(3):     # an input that was refused once stays refused
                drive(tr, text, "negative", must_reject=True)
            # negative distances through the generated forms: the negative value may be the first argument, the last, or lie inside a
            # descending range that starts at a legal distance and runs through the origin
            a, x, n = rng.randint(0, 3), rng.randint(1, 4), rng.randint(2, 6)
            neg = rng.choice([f"linspace(-{x}, {a + 1}, {n})", f"linspace({a + 1}, -{x}, {n})", f"linspace({a}.5, -0.{x})",
                              f"range(-{x}, {a + 1})", f"arange(-{x}.5, {a + 1}, 0.5)",
                              f"range({a}, -{x + 1}, -1)", f"arange({a}.5, -{x}, -0.5)", f"range({a}, -{x}.5, -1)"])
            drive(tr, neg, "negative", must_reject=True)
        if it % 10 == 7:
            # decimal steps with the stop exactly a whole number of steps from the start (the regime where rounding decides about the
            # last point): only the intended answer and numpy.arange's are acceptable
            from decimal import Decimal
            step = Decimal(rng.choice(["0.1", "0.2", "0.3", "0.05", "0.7", "0.15", "1.1"]))
            start = step * rng.randint(1, 12) if rng.random() < 0.7 else Decimal(rng.randint(1, 30)) / 10
            stop = start + step * rng.randint(2, 14)
            drive(tr, f"range({start}, {stop}, {step})", "range_on_lattice")
        if it % 10 == 3:
            # twins: the same three numbers once as linspace(a, b, n) and once as range(a, b, n), in both orders, in one process
            a, n = rng.randint(1, 9), rng.randint(2, 6)
            b = a + n * rng.randint(1, 4) + rng.choice([0, 1])
            pair = [f"linspace({a}, {b}, {n})", f"range({a}, {b}, {n})"]
            rng.shuffle(pair)
            for text in pair + pair[:1]:
                drive(tr, text, "linspace_range_twins")
        if it % 10 == 5:
            # the same array through several syntaxes: hash must depend on the array only
            k = rng.choice([2, 3, 4, 5])
            # every third group starts exactly at the origin (a legal distance): descending forms reach the zero from above, and a
            # zero that comes out as -0.0 is the same distance but different bytes
            start = 0 if rng.random() < 0.34 else rng.randint(1, 9)
            ints = [Fraction(start + i) for i in range(k)]
            texts = ["[" + ", ".join(str(int(v)) for v in ints) + "]",
                     "(" + ",".join(render(rng, v) for v in reversed(ints)) + ")",
                     f"linspace({start}, {start + k - 1}, {k})",
                     f"range({start}, {start + k})", f"arange({start},{start + k},1)",
                     f"linspace({start + k - 1}, {start}, {k})",
                     f"range({start + k - 1}, {start - 1}, -1)", f"arange({start + k - 1}.0, {start - 0.5}, -1.0)"]
            objs = [drive(tr, t, "same-array-group") for t in texts]
            objs = [o for o in objs if o is not None]
            if len(objs) == len(texts):
                same = all(np.array_equal(o.get_trans_grid(), objs[0].get_trans_grid()) for o in objs)
                if same:
                    REC.check("C16.hash_depends_on_array_only", len({o.grid_hash for o in objs}) == 1,
                              {"texts": texts, "hashes": [o.grid_hash for o in objs]})
                else:
                    REC.fail("C16.hash_depends_on_array_only", {"texts": texts, "problem": "arrays differ",
                                                                "arrays": [o.get_trans_grid() for o in objs]})


def run_short_lists(tr, spec):
    """exhaustive short decimal lists: every ordered tuple of <=3 distinct values from a small decimal set, both brackets"""
    import itertools
    vals = ["0.1", "0.25", "1", "1.5", "2", "10", "0.05"]
    for k in (1, 2, 3):
        for tup in itertools.permutations(vals, k):
            for o, c in ("[]", "()"):
                body = ", ".join(tup) + ("," if k == 1 and o == "(" else "")
                drive(tr, f"{o}{body}{c}", f"exhaustive-list-{k}")


def shards(tier, seed):
    n, per = (6, 500) if tier == "quick" else (16, 30000)
    out = [{"kind": "random", "rseed": seed * 1000 + i, "count": per} for i in range(n)]
    out.append({"kind": "short_lists"})
    out.append({"kind": "repo_tests", "modules": ["tests/test_parsers.py"]})
    return out


def run_shard(spec):
    tr = install()
    if spec["kind"] == "repo_tests":
        from vlib import repo_tests
        from vlib.props import c17
        c17.install()
        return repo_tests.run(spec["modules"])
    (run_random if spec["kind"] == "random" else run_short_lists)(tr, spec)


def replay(case):
    tr = install()
    if "helper_form" in case:
        r = case["radii"]
        radii = {"int64": np.array(r, dtype=np.int64) if all(float(x).is_integer() for x in r) else np.array(r), "int32": np.array(r).astype(np.int32),
                 "tuple_of_ints": tuple(r), "float32": np.array(r, dtype=np.float32)}.get(case["helper_form"], r)
        REC.begin_case(case)
        tr.get_increments(radii); tr.get_between_radii(radii); tr.get_between_radii(radii, include_zero=True)
        return
    drive(tr, case["text"], case.get("kind", "replay"), must_reject=(case.get("kind") == "negative"))
