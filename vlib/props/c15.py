"""C15 - rotation-cell volumes approximate a partition of rotation space.

Monitor: postcondition on the real HalfRotobjVoronoi.get_voronoi_volumes / MikroVoronoi.get_voronoi_volumes.  Oracle: Monte-Carlo
nearest-rotation measure (x uniform on S^3, cell = argmax |x.q_i|) with sequential error control: a cell is violated only if
|rel| - 4 SE > 0.30, held if |rel| + 4 SE < 0.30, otherwise the sample is quadrupled (up to 2.6e7) and finally reported ambiguous.
"""
import numpy as np

from vlib import attach
from vlib.rec import REC

ID = "C15"
LEVEL = "exploration"
DECIDING = ["C15.volumes"]
RULE = ("grids (algorithm, N): cube4D and randomQ (both algorithms of one N in the same process, alternating order), quick N in {1..12,16,20,30,40,113}, thorough every N in 1..80 plus 100,113,120,150; 3-D grids with N in {1,2,3} for the "
        "equal-share estimate; rotation grids whose volumes were first used by FullGrid.get_total_volumes / get_full_prefactors; every cell of every grid is judged against the Monte-Carlo measure. Non-trivial = N>=4; distinct by (algorithm, N)")
ASSUMPTIONS = ["true measures are Monte-Carlo estimates; decisions use 4 standard errors and sequential enlargement of the sample",
               "bounds of the statement: sum within 12% of pi^2, every cell within 30% of its measure"]
EXHAUSTIVE = {"quick": False, "thorough": False}
MIN_NONTRIVIAL = {"quick": 20, "thorough": 100}
SHARD_TIMEOUT = {"quick": 1200, "thorough": 7200}
HALF = np.pi ** 2


def mc_fractions(G, n, seed):
    rng = np.random.default_rng(seed)
    counts = np.zeros(len(G))
    done = 0
    while done < n:
        m = min(400000, n - done)
        X = rng.normal(size=(m, 4))
        idx = np.argmax(np.abs(X @ G.T), axis=1)   # the norm of x does not matter for the argmax
        counts += np.bincount(idx, minlength=len(G))
        done += m
    return counts / n


def half_volumes_are_cell_measures(self, approx, result):
    try:
        P = np.asarray(self.my_array, dtype=float)
        full = np.asarray(self.full_voronoi.get_voronoi_volumes(approx=True), dtype=float)
    except Exception as e:
        REC.crashed("C15.oracle_error", e)
        return True
    return judge_volumes(P, result, full)


def judge_volumes(P, result, full):
    """P: double cover (2N,4); result: the N reported volumes; full: the 2N double-cover volumes (None if the grid has no such model)"""
    mon = "C15.volumes"
    try:
        N = len(P) // 2
        G = P[:N]
        V = np.asarray(result, dtype=float)
        problems, mech = [], None
        if V.shape != (N,):
            problems.append(f"shape {V.shape} != {(N,)}")
        else:
            if np.any(V <= 0) or not np.all(np.isfinite(V)):
                problems.append("non-positive or non-finite volume")
            if full is None:
                problems.append("a rotation grid with N >= 4 has no double-cover cell model behind its volumes (equal-share estimate used)")
            elif full.shape != (2 * N,) or not np.array_equal(V, full[:N]):
                problems.append("not the first N of the 2N double-cover volumes")
            s = V.sum() / HALF - 1
            if abs(s) > 0.12:
                problems.append({"sum_over_pi2_minus_1": s})
            n = 400000
            undecided = np.ones(N, dtype=bool)
            verdicts = {}
            while True:
                f = mc_fractions(G, n, seed=N)
                with np.errstate(divide="ignore", invalid="ignore"):
                    rel = V / (f * HALF) - 1
                    se = np.sqrt((1 - f) / (f * n)) * (1 + np.abs(rel))
                for i in np.flatnonzero(undecided):
                    if f[i] == 0:
                        continue
                    if abs(rel[i]) - 4 * se[i] > 0.30:
                        verdicts[i] = ("violated", rel[i], f[i])
                        undecided[i] = False
                    elif abs(rel[i]) + 4 * se[i] < 0.30:
                        undecided[i] = False
                if not undecided.any() or n * 4 > 2.6e7:
                    break
                n *= 4
            for i in np.flatnonzero(undecided):
                REC.ambiguous(mon, "cell within 4 SE of the 30% bound at 2.6e7 samples")
            for i, (_, r, fi) in verdicts.items():
                problems.append({"cell": int(i), "volume": V[i], "mc_measure": fi * HALF, "relative_error": r, "samples": n})
                # F12: in a tiny grid (N <= 6) a cell much smaller than the average cell (true share < half the mean share) is overestimated
                if N <= 6 and r > 0 and fi * N < 0.5:
                    mech = "small_cell_in_tiny_grid_overestimated"
                else:
                    mech = None
            REC.extra["mc_samples"] = REC.extra.get("mc_samples", 0) + int(n)
            REC.extra.setdefault("max_abs_rel_per_grid", []).append([int(N), float(np.nanmax(np.abs(rel)))])
        if problems:
            only_f12 = mech is not None and all(isinstance(p, dict) and "cell" in p for p in problems)
            REC.fail(mon, {"N": N, "problems": problems[:4], "grid_head": G[:2]}, mechanism=mech if only_f12 else None)
        else:
            REC.ok(mon)
    except Exception as e:
        REC.crashed("C15.oracle_error", e)
    return True


def mikro_volumes_are_equal_shares(self, result):
    mon = "C15.volumes"
    try:
        n = int(self.N_points)
        case = REC.case if isinstance(REC.case, dict) else {}
        if isinstance(case.get("N"), int) and "alg" in case:
            n = 1 if str(case["alg"]).startswith("zero") else case["N"]      # the N the workload asked for, not what the object believes
        want = (4 * np.pi / n) if self.dimensions == 3 else (HALF / n)
        v = np.asarray(result, dtype=float)
        REC.check(mon, v.shape == (n,) and np.allclose(v, want, rtol=1e-13), {"N": n, "dimensions": self.dimensions, "volumes": v, "expected": want})
    except Exception as e:
        REC.crashed("C15.oracle_error", e)
    return True


def install():
    from molgri.space import voronoi
    attach.ensure(voronoi.HalfRotobjVoronoi, "get_voronoi_volumes", half_volumes_are_cell_measures)
    attach.ensure(voronoi.MikroVoronoi, "get_voronoi_volumes", mikro_volumes_are_equal_shares)


NFORMS = {"int": int, "int64": np.int64, "int32": np.int32, "0d_array": lambda n: np.asarray(n), "squeezed": lambda n: np.squeeze(np.array([n]))}


def drive(alg, N, nform="int"):
    from molgri.space.rotobj import SphereGrid3DFactory, SphereGrid4DFactory
    REC.begin_case({"alg": alg, "N": N, "nform": nform}, cls=[f"alg={alg}", f"N held as {nform}"], sample=(N == 8))
    try:
        F = SphereGrid3DFactory if alg in ("ico", "cube3D", "randomS") else SphereGrid4DFactory
        g = F.create(alg_name=alg, N=NFORMS[nform](N))
        before = REC.monitors["C15.volumes"]["calls"]
        v = g.get_spherical_voronoi().get_voronoi_volumes()
        if alg in ("cube4D", "randomQ") and N >= 4 and type(g.get_spherical_voronoi()).__name__ != "HalfRotobjVoronoi":
            # the property covers every rotation grid with N >= 4 whatever class serves it: judge at the grid level
            REC.notes["C15 judged at the grid level"] += 1
            judge_volumes(np.asarray(g.get_grid_as_array(only_upper=False), dtype=float), v, None)
        if alg in ("cube4D", "randomQ") and N >= 4:
            REC.nontrivial_case((alg, N))
            v2 = g.get_spherical_voronoi().get_voronoi_volumes()   # second request on the same object (helper points are filtered in place)
            REC.check("C15.repeatable", np.array_equal(v, v2), {"alg": alg, "N": N})
    except Exception as e:
        REC.crashed("C15.call_raised", e)


def drive_consumers():
    """history: the package's own consumers of the rotation volumes run first (FullGrid.get_total_volumes, get_full_prefactors, the writer),
    then the volumes of the same live rotation grid are requested again and judged by the monitor"""
    from molgri.space.fullgrid import FullGrid
    for b, f in (("cube4D_8", 2), ("randomQ_9", 3.7), ("12", 0.5)):
        REC.begin_case({"kind": "volumes after their consumers", "b": b, "factor": f}, cls="volumes after their consumers")
        try:
            fg = FullGrid(b, "4", "[0.1, 0.2]", factor=f)
            fg.get_total_volumes()
            fg.get_full_prefactors()
            fg.get_total_volumes()
            fg.b_rotations.get_spherical_voronoi().get_voronoi_volumes()
            REC.nontrivial_case(("consumers", b, f))
        except Exception as e:
            REC.crashed("C15.call_raised", e)


def shards(tier, seed):
    Ns = list(range(1, 13)) + [16, 20, 30, 40, 113] if tier == "quick" else list(range(1, 81)) + [100, 113, 120, 150]
    # both rotation algorithms of one N run in the SAME process, in alternating order (nothing may be shared between two grids of equal size)
    jobs = [(N, 2 * N ** 2 + 600) for N in Ns]
    nsh = 16 if tier == "quick" else 48
    jobs.sort(key=lambda t: -t[1])
    buckets = [[] for _ in range(nsh)]
    load = [0] * nsh
    for N, c in jobs:
        k = load.index(min(load))
        pair = [["cube4D", N], ["randomQ", N]]
        buckets[k].extend(pair if (N + seed) % 2 == 0 else pair[::-1])
        load[k] += c
    out = [{"jobs": b} for b in buckets if b]
    out[-1]["jobs"] = out[-1]["jobs"] + [[a, N] for a in ("ico", "cube3D", "randomS") for N in (1, 2, 3)]
    out[-1]["consumers"] = True
    return out


def run_shard(spec):
    install()
    forms = list(NFORMS)
    for alg, N in spec["jobs"]:
        if N < 4:
            for nform in forms:          # the equal-share grids are cheap: N in every integer form a caller may hold it in
                drive(alg, N, nform)
        else:
            drive(alg, N, forms[(N + len(alg)) % len(forms)])
    if spec.get("consumers"):
        drive_consumers()


def replay(case):
    install()
    drive(case["alg"], case["N"], case.get("nform", "int"))
