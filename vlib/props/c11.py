"""C11 - frame assignment equals geometric membership in the grid cell.

Monitor: postcondition on the real AssignmentTool.get_full_assignments.  The workload creates placements with known (position,
rotation) through the pseudotrajectory code (guarded by the C10 monitors in the same run), so the oracle needs no inverse problem:
t = nearest radius, o = nearest direction, b = argmax |q_b . q_true|, index (t*n_o+o)*n_b+b, NaN beyond the outer boundary.
"""
import os
import random
import shutil
import tempfile

import numpy as np

from vlib import attach
from vlib.props import c10
from vlib.rec import REC

ID = "C11"
LEVEL = "exploration"
DECIDING = ["C11.assignment"]
RULE = ("set-ups = (full grid with n_b in {1,4,8,17}, n_o in {4,5,7,12,25,30} (and cube3D_210/300/390 for the long trajectory), n_t in {2,3,4} incl. non-equidistant radii; second molecule with three "
        "distinct principal moments: non-planar 4-8 atoms / planar (water in both atom orders, random planar) / input/H2O.gro; metric "
        "cartesian_grid True/False; outliers included or not (flag as bool / numpy bool / 0,1); whole system shifted by up to 8 A per axis in half of the set-ups; trajectory = continuous random placements (not grid points, some beyond the "
        "outer boundary, equal-sized grids with coinciding end points but different interior radii used in one process, one long trajectory of 2200 frames per run and more in thorough) or the grid's own pseudotrajectory, some assigned twice from the same array). "
        "Every frame is judged. Non-trivial = set-up with n_b>=4 and >=20 unambiguous frames; distinct by set-up digest")
ASSUMPTIONS = ["placements whose best and second-best candidate differ by < 1e-3 (A for radii, cosine for directions, |q.q_b| for rotations) or that lie "
               "within 1e-3 A of the outer boundary are ambiguous and skipped (counted)",
               "planar second molecules far from the origin are known finding F11 (float32 noise decides the out-of-plane sign); planar batches "
               "with |p| <= 4 A are judged strictly"]
EXHAUSTIVE = {"quick": False, "thorough": False}
MIN_NONTRIVIAL = {"quick": 6, "thorough": 100}
SHARD_TIMEOUT = {"quick": 1200, "thorough": 7200}

REG = {}   # id(trajectory universe) -> dict(placements, grid parts, flags)


def raw_directions(positions, masses):
    """the sign table the tool derives from one geometry, *before* its handedness completion (own re-implementation for classification)"""
    com = (positions * masses[:, None]).sum(axis=0) / masses.sum()
    X = positions - com
    I = np.zeros((3, 3))
    for m, x in zip(masses, X):
        I += m * ((x @ x) * np.eye(3) - np.outer(x, x))
    w, v = np.linalg.eigh(I)
    pas = v.T[::-1]
    dirs = [0, 0, 0]
    for x in X:
        for i, pa in enumerate(pas):
            dirs[i] = np.sign(np.round(pa @ x, 6))
        if not np.any(np.isclose(dirs, 0)):
            break
    return np.array(dirs)


def f11_trigger(info, frame_positions):
    """F11: the reference needed the handedness completion (exactly one zero) and this frame's table shows no zero (noise decided a sign)"""
    ref = raw_directions(info["x2_ref"], info["m2"])
    if int(np.sum(np.isclose(ref, 0))) != 1:
        return False
    fr = raw_directions(frame_positions, info["m2"])
    return not np.any(np.isclose(fr, 0))


def assignments_are_cell_membership(self, result):
    mon = "C11.assignment"
    try:
        info = REG.get(id(self.trajectory_universe))
        if info is None:
            REC.skip(mon, "trajectory not registered by the harness")
            return True
        judge(info, np.asarray(result, dtype=float), self)
    except Exception as e:
        REC.crashed("C11.oracle_error", e)
    return True


def expected_assignment(info):
    P = info["placements"]
    d, q, r = info["d"], info["q"], info["r"]
    n_o, n_b = len(d), len(q)
    outer = r[-1] + 0.5 * (r[-1] - r[-2])
    exp = np.full(len(P), np.nan)
    amb = np.zeros(len(P), dtype=bool)
    for k, row in enumerate(P):
        p, qt = row[:3], row[3:] / np.linalg.norm(row[3:])
        dist = np.linalg.norm(p)
        dr = np.sort(np.abs(r - dist))
        t = int(np.argmin(np.abs(r - dist)))
        if len(r) > 1 and dr[1] - dr[0] < 1e-3:
            amb[k] = True
        cosv = d @ (p / dist)
        o = int(np.argmax(cosv))
        cs = np.sort(cosv)
        if len(d) > 1 and cs[-1] - cs[-2] < 1e-3:
            amb[k] = True
        ov = np.abs(q @ qt)
        b = int(np.argmax(ov))
        os_ = np.sort(ov)
        if len(q) > 1 and os_[-1] - os_[-2] < 1e-3:
            amb[k] = True
        if abs(dist - outer) < 1e-3:
            amb[k] = True
        if dist > outer and not info["include_outliers"]:
            exp[k] = np.nan
        else:
            exp[k] = (t * n_o + o) * n_b + b
    return exp, amb


def judge(info, res, tool):
    mon = "C11.assignment"
    exp, amb = expected_assignment(info)
    if res.shape != exp.shape:
        REC.fail(mon, {"problem": f"{res.shape} assignments for {exp.shape} frames", "setup": info["desc"]})
        return
    same = (res == exp) | (np.isnan(res) & np.isnan(exp))
    wrong = ~same & ~amb
    REC.notes["C11 ambiguous placements skipped"] += int(amb.sum())
    REC.extra["frames_judged"] = REC.extra.get("frames_judged", 0) + int((~amb).sum())
    info["unambiguous"] = int((~amb).sum())
    if wrong.any():
        ks = np.flatnonzero(wrong)
        k = int(ks[0])
        mech = None
        if info["planar"]:
            u = tool.trajectory_universe
            sel = u.select_atoms(tool.second_molecule_selection)
            trig = 0
            for kk in ks[:50]:
                u.trajectory[int(kk)]
                if f11_trigger(info, np.array(sel.positions, dtype=float)):
                    trig += 1
            if trig == min(len(ks), 50):
                mech = "planar_float32_noise_sign"
        n_o, n_b = len(info["d"]), len(info["q"])

        def split(x):
            return None if x != x else [int(x) // n_b // n_o, int(x) // n_b % n_o, int(x) % n_b]
        REC.fail(mon, {"setup": info["desc"], "wrong_frames": int(wrong.sum()), "of": int((~amb).sum()), "frame": k,
                       "placement": info["placements"][k], "assigned": res[k], "expected": exp[k],
                       "assigned_t_o_b": split(res[k]), "expected_t_o_b": split(exp[k])}, mechanism=mech)
    else:
        REC.ok(mon)


def install():
    from molgri.molecules import transitions
    attach.ensure(transitions.AssignmentTool, "get_full_assignments", assignments_are_cell_membership)
    return transitions


# --------------------------------------------------------------------------------------- workload
def three_distinct_moments(X, masses):
    com = (X * masses[:, None]).sum(axis=0) / masses.sum()
    Y = X - com
    I = np.zeros((3, 3))
    for m, x in zip(masses, Y):
        I += m * ((x @ x) * np.eye(3) - np.outer(x, x))
    w = np.sort(np.linalg.eigvalsh(I))
    if w[0] <= 1e-6:
        return False
    return (w[1] - w[0]) / w[1] > 0.05 and (w[2] - w[1]) / w[2] > 0.05


MASS = {"H": 1.008, "C": 12.011, "N": 14.007, "O": 15.999}


def make_second_molecule(rng, nprng, kind):
    for _ in range(200):
        if kind == "water":
            X = np.array([[0.0, 0.0, 0.0], [0.9572, 0.0, 0.0], [-0.24, 0.9266, 0.0]])
            els = ["O", "H", "H"]
            if rng.random() < 0.5:
                X, els = X[[1, 0, 2]], ["H", "O", "H"]
            Rm = np.linalg.qr(nprng.normal(size=(3, 3)))[0]
            X = X @ Rm.T
        elif kind == "planar":
            # exactly coplanar also after rounding to the 3 decimals of the file: a coordinate plane or the plane x = y
            n = rng.randint(4, 6)
            c = np.round(nprng.uniform(-1.5, 1.5, size=(n, 2)), 3)
            plane = rng.choice(["xy", "yz", "xz", "x=y"])
            X = np.zeros((n, 3))
            if plane == "xy":
                X[:, 0], X[:, 1] = c[:, 0], c[:, 1]
            elif plane == "yz":
                X[:, 1], X[:, 2] = c[:, 0], c[:, 1]
            elif plane == "xz":
                X[:, 0], X[:, 2] = c[:, 0], c[:, 1]
            else:
                X[:, 0], X[:, 1], X[:, 2] = c[:, 0], c[:, 0], c[:, 1]
            els = [rng.choice(["H", "C", "N", "O"]) for _ in range(n)]
        elif kind == "centre_first":
            # a centrosymmetric molecule whose FIRST atom sits exactly at the centre of mass (pairs +-p of equal elements around it): the
            # vector from the centre of mass to that atom is pure rounding noise
            ps = np.round(nprng.uniform(-1.8, 1.8, size=(3, 3)), 3)
            pe = [rng.choice(["H", "C", "N", "O"]) for _ in range(3)]
            X = np.vstack([np.zeros(3)] + [v for q in ps for v in (q, -q)])
            els = [rng.choice(["C", "N", "O"])] + [e for e in pe for _ in range(2)]
        else:
            n = rng.randint(4, 8)
            X = nprng.uniform(-1.5, 1.5, size=(n, 3))
            els = [rng.choice(["H", "C", "N", "O"]) for _ in range(n)]
        X = np.round(X, 3)
        m = np.array([MASS[e] for e in els])
        if not three_distinct_moments(X, m):
            continue
        # the tool takes its sign table from the first atom that lies off all three principal planes (non-planar molecules) or, if every
        # atom lies in one of them (planar), from the last atom plus a handedness rule: keep those atoms clearly (>0.05 A) off the planes
        com = (X * m[:, None]).sum(axis=0) / m.sum()
        Y = X - com
        I = np.zeros((3, 3))
        for mm, x in zip(m, Y):
            I += mm * ((x @ x) * np.eye(3) - np.outer(x, x))
        v = np.linalg.eigh(I)[1]
        proj = np.abs(Y @ v)
        if kind == "centre_first":
            if proj[1:].min() < 0.05:
                continue
        elif kind == "nonplanar":
            if proj[0].min() < 0.05:
                continue
        else:
            out_axis = int(np.argmin(proj.max(axis=0)))
            if proj[:, out_axis].max() > 1e-7:
                continue
            inplane = np.delete(proj, out_axis, axis=1)
            if inplane[-1].min() < 0.05:
                continue
        return X, els
    raise RuntimeError("could not generate a molecule with three distinct moments")


def drive(tr, pts, io, d, rng, nprng, tier, idx, cache, force=None):
    from molgri.space.fullgrid import FullGrid
    n_b = rng.choice([1, 4, 8, 17])
    n_o = rng.choice([4, 5, 7, 12, 25, 30])
    t = rng.choice(["[0.2, 0.35]", "[0.2, 0.3, 0.45]", "[0.2, 0.35, 0.45]", "[0.15, 0.25, 0.35, 0.45]", "linspace(0.2, 0.5, 3)", "[1.0, 1.5, 2.5]", "[0.4, 1.2, 3.0]"])
    balg, oalg = rng.choice(["cube4D", "randomQ"]), rng.choice(["ico", "cube3D", "randomS"])
    if idx == 0 and cache.get("__long__"):
        # the long trajectory of the run is assigned on a large direction grid whose last subdivision level is only partly filled (cells of
        # very different size): a nearest-point search with a distance cut-off loses directions deep inside the largest cells
        n_b, n_o, oalg = rng.choice([4, 8]), rng.choice([210, 300, 390]), "cube3D"
    if force:
        n_b, n_o, t, balg, oalg = force["n_b"], force["n_o"], force["t"], force["balg"], force["oalg"]
    key = (balg, n_b, oalg, n_o, t)
    if key not in cache:
        fg = FullGrid(f"{balg}_{n_b}" if n_b > 1 else "1", f"{oalg}_{n_o}", t)
        cache[key] = (fg.get_full_grid_as_array(), np.asarray(fg.get_position_grid().get_o_grid().get_grid_as_array(), dtype=float),
                      np.asarray(fg.b_rotations.get_grid_as_array(only_upper=True), dtype=float),
                      np.asarray(fg.get_position_grid().get_radii(), dtype=float))
    grid, dgrid, qgrid, r = cache[key]
    grid = grid.copy()
    kind = rng.choice(["nonplanar", "nonplanar", "water", "planar", "h2o_file", "centre_first"])
    if idx == 0 and cache.get("__far_planar__"):
        # every run contains planar molecules 10-29 A from the origin (float32 noise ~1e-6 A there; regression case of F11)
        kind, t = "planar", "[1.0, 1.5, 2.5]"
        key = (balg, n_b, oalg, n_o, t)
        if key not in cache:
            fg = FullGrid(f"{balg}_{n_b}" if n_b > 1 else "1", f"{oalg}_{n_o}", t)
            cache[key] = (fg.get_full_grid_as_array(), np.asarray(fg.get_position_grid().get_o_grid().get_grid_as_array(), dtype=float),
                          np.asarray(fg.b_rotations.get_grid_as_array(only_upper=True), dtype=float),
                          np.asarray(fg.get_position_grid().get_radii(), dtype=float))
        grid, dgrid, qgrid, r = cache[key]
        grid = grid.copy()
        cache["__far_planar__"] = False
        force_far = True
    else:
        force_far = False
    p1, p2 = os.path.join(d, f"m1_{idx}.xyz"), os.path.join(d, f"m2_{idx}.xyz")
    X1, el1 = c10.make_geometry(rng, nprng, rng.choice(["single", "nonplanar", "planar"]), rng.randint(2, 6))
    c10.write_molecule(p1, X1, el1)
    if kind == "h2o_file":
        p2 = os.path.join(os.environ.get("VERIF_REPO", "/repo"), "input", "H2O.gro")
    else:
        X2, el2 = make_second_molecule(rng, nprng, kind)
        c10.write_molecule(p2, X2 + np.round(nprng.uniform(-3, 3, size=3), 3), el2)
    planar = kind in ("water", "planar", "h2o_file")
    # the flag in the spellings a caller may hand over (read from an array, a config integer, ...)
    include_outliers = rng.choice([True, True, np.True_, 1] if rng.random() < 0.4 else [False, False, np.False_, 0])
    # the whole system may sit anywhere in the box: in half of the set-ups every atom of every frame is shifted by one offset
    offset = np.round(nprng.uniform(-8, 8, size=3), 3) if rng.random() < 0.5 else None
    cartesian = rng.random() < 0.5 or (idx == 0 and bool(cache.get("__long__")))
    outer = r[-1] + 0.5 * (r[-1] - r[-2])
    mode = rng.choice(["continuous", "continuous", "own_pt", "continuous_twice"]) if not force_far else "continuous"
    if idx == 0 and cache.get("__long__"):
        mode = "continuous"        # the run's long trajectory (frame-block boundaries at 2048) is never traded for a short one
    if mode == "own_pt":
        placements = grid.copy()
        if planar and r[-1] > 4.0:
            mode = "own_pt_far_planar"
    else:
        n = rng.choice([40, 150]) if rng.random() < (0.85 if tier == "thorough" else 1.0) else 2200
        if idx == 0 and cache.get("__long__"):
            n = 2200   # one long trajectory per run also in the quick tier (frame-block boundaries at 2048)
            cache["__long__"] = False
        dist_hi = min(outer * 1.15, 4.0) if planar and rng.random() < 0.6 and not force_far else outer * 1.15
        dist = nprng.uniform(max(0.3, r[0] * 0.5), max(dist_hi, r[0] * 0.5 + 0.5), size=n)
        dirs = nprng.normal(size=(n, 3))
        dirs /= np.linalg.norm(dirs, axis=1, keepdims=True)
        q = nprng.normal(size=(n, 4))
        q /= np.linalg.norm(q, axis=1, keepdims=True)
        placements = np.hstack([dirs * dist[:, None], q])
    far_planar = planar and float(np.linalg.norm(placements[:, :3], axis=1).max()) > 4.0
    desc = {"grid": [f"{balg}_{n_b}", f"{oalg}_{n_o}", t], "second_molecule": kind, "include_outliers": repr(include_outliers),
            "system_offset": None if offset is None else offset.tolist(),
            "cartesian_grid": cartesian, "mode": mode, "frames": len(placements), "far_planar": far_planar}
    REC.begin_case(desc, cls=[f"mol2={kind}", f"mode={mode}", f"n_b={n_b}", f"far_planar={far_planar}", f"shifted_system={offset is not None}",
                              f"outliers_flag={type(include_outliers).__name__}"], sample=(idx % 5 == 0))
    try:
        m1 = io.OneMoleculeReader(p1).get_molecule()
        m2 = io.OneMoleculeReader(p2).get_molecule()
        reps = 2 if mode == "continuous_twice" else 1
        for rep in range(reps):
            # the same grid array object is handed to every tool of this set-up (a tool must not depend on, or alter, earlier uses of it)
            u = pts.Pseudotrajectory(m1, m2, placements).get_pt_as_universe()
            if offset is not None:
                import MDAnalysis as mda
                from MDAnalysis.coordinates.memory import MemoryReader
                coords = np.array([ts.positions.copy() for ts in u.trajectory], dtype=np.float64) + offset
                u = mda.Merge(u.atoms)
                u.load_new(coords.astype(np.float32), format=MemoryReader)
            m2ref = io.OneMoleculeReader(p2).get_molecule()
            info = {"placements": placements, "d": dgrid, "q": qgrid, "r": r, "include_outliers": bool(include_outliers), "planar": planar,
                    "x2_ref": np.array(m2ref.atoms.positions, dtype=float), "m2": np.array(m2ref.atoms.masses, dtype=float), "desc": desc}
            REG[id(u)] = info
            tool = tr.AssignmentTool(grid, u, m2ref, include_outliers=include_outliers, cartesian_grid=cartesian)
            try:
                tool.get_full_assignments()
            except Exception as e:
                mech = None
                if planar:
                    sel = u.select_atoms(tool.second_molecule_selection)
                    for kk in range(len(u.trajectory)):
                        u.trajectory[kk]
                        if f11_trigger(info, np.array(sel.positions, dtype=float)):
                            mech = "planar_float32_noise_sign"
                            break
                REC.crashed("C11.call_raised", e, mechanism=mech)
                return
            if n_b >= 4 and info.get("unambiguous", 0) >= 20:
                REC.nontrivial_case(desc)
            REG.pop(id(u), None)
    except Exception as e:
        REC.crashed("C11.harness_or_setup_raised", e)


def drive_churn(tr, pts, io, d, rng, nprng, rounds):
    """object churn: many small full grids of EQUAL shape but different radii are built in a helper, round-tripped through an assignment
    tool and dropped; a fresh array often lands on the address of a dead one (anything remembered about an array by id() surfaces here)"""
    from molgri.space.fullgrid import FullGrid
    p1, p2 = os.path.join(d, "churn_m1.xyz"), os.path.join(d, "churn_m2.xyz")
    X1, el1 = c10.make_geometry(rng, nprng, "nonplanar", 4)
    c10.write_molecule(p1, X1, el1)
    X2, el2 = make_second_molecule(rng, nprng, "nonplanar")
    c10.write_molecule(p2, X2, el2)

    held = [None]

    def one_round(t):
        fg = FullGrid("1", "ico_4", t)
        base = fg.get_full_grid_as_array()
        held[0] = None            # the previous round's array dies here ...
        grid = base.copy()        # ... and the new one of equal size is created right away: it usually gets the same address
        held[0] = grid
        m1 = io.OneMoleculeReader(p1).get_molecule()
        m2 = io.OneMoleculeReader(p2).get_molecule()
        u = pts.Pseudotrajectory(m1, m2, grid.copy()).get_pt_as_universe()
        m2ref = io.OneMoleculeReader(p2).get_molecule()
        info = {"placements": grid.copy(), "d": np.asarray(fg.get_position_grid().get_o_grid().get_grid_as_array(), dtype=float),
                "q": np.asarray(fg.b_rotations.get_grid_as_array(only_upper=True), dtype=float),
                "r": np.asarray(fg.get_position_grid().get_radii(), dtype=float), "include_outliers": False, "planar": False,
                "x2_ref": np.array(m2ref.atoms.positions, dtype=float), "m2": np.array(m2ref.atoms.masses, dtype=float),
                "desc": {"churn": True, "t": t}}
        REG[id(u)] = info
        try:
            tr.AssignmentTool(grid, u, m2ref, include_outliers=False, cartesian_grid=True).get_full_assignments()
        finally:
            REG.pop(id(u), None)

    for k in range(rounds):
        a = round(0.2 + 0.05 * rng.randint(0, 8), 3)
        t = f"[{a}, {round(a + 0.1 + 0.05 * rng.randint(0, 6), 3)}, {round(a + 0.6 + 0.1 * rng.randint(0, 5), 3)}]"
        REC.begin_case({"churn": True, "round": k, "t": t}, cls="object churn")
        try:
            one_round(t)
            REC.nontrivial_case(("churn", k, t))
        except Exception as e:
            REC.crashed("C11.call_raised", e)


def shards(tier, seed):
    n, per = (12, 2) if tier == "quick" else (16, 14)
    return [{"rseed": seed * 1000 + i, "count": per} for i in range(n)] + \
           [{"rseed": seed * 1000 + 700 + i, "count": 0, "churn": 10 if tier == "quick" else 40} for i in range(1 if tier == "quick" else 3)]


def run_shard(spec):
    tr = install()
    pts, io = c10.install()
    from vlib.props import c09
    c09.install()   # the decomposition the tool relies on is judged too (incl. 'input untouched')
    rng = random.Random(spec["rseed"])
    nprng = np.random.default_rng(spec["rseed"])
    d = tempfile.mkdtemp(prefix="verif_c11_")
    cache = {"__long__": spec["rseed"] % 1000 == 0, "__far_planar__": spec["rseed"] % 1000 in (1, 2, 3)}
    try:
        for it in range(spec["count"]):
            drive(tr, pts, io, d, rng, nprng, spec["tier"], it, cache)
        if spec.get("churn"):
            drive_churn(tr, pts, io, d, rng, nprng, spec["churn"])
        if spec["rseed"] % 1000 == 4:
            # history: two grids of equal size whose first and last grid points coincide but whose interior radii differ, used one after the
            # other in the same process (nothing learnt about the first grid may leak into the second)
            for t in ("[0.2, 0.3, 0.5]", "[0.2, 0.4, 0.5]", "[0.2, 0.3, 0.5]"):
                drive(tr, pts, io, d, rng, nprng, spec["tier"], 99, cache, force={"n_b": 4, "n_o": 12, "t": t, "balg": "cube4D", "oalg": "ico"})
    finally:
        shutil.rmtree(d, ignore_errors=True)


def replay(case):
    raise RuntimeError("set-ups are regenerated from the seed: re-run the tier with the same VERIF_SEED")
