"""C02 - full-grid matrices are the symmetric product of position and rotation geometry.

Monitors: postconditions on the real FullGrid.get_full_adjacency / get_full_borders / get_full_distances / get_total_volumes.
Oracle: Kronecker composition kron(X_pos, I_nb)*alpha + kron(I_npos, X_rot)*beta of the object's own position-grid and rotation-grid
quantities (which are themselves judged by the C03/C05 monitors installed alongside, and by C04/C06 in their own checks), uniform
factor family, common pattern and stored order across the triple, volumes in grid order.
"""
import hashlib
import os
import random

import numpy as np
from scipy import sparse

from vlib import attach, geom3
from vlib.rec import REC

ID = "C02"
LEVEL = "exploration"
DECIDING = ["C02.adjacency", "C02.borders", "C02.distances", "C02.volumes", "C02.workflow_files"]
RULE = ("full grids: rotation algorithm in {cube4D, randomQ} with n_b in {1,4,5,8,9,13,20,40(thorough)}, direction algorithm in {ico, cube3D, "
        "randomS} with n_o in {1,4,5,7,12,13,20,42}, 2-4 unequal radii (also picometre shells), factor in {0.5,1,2,3.7,1e-3,250}, both position modes, also the same specification in both modes within one process (Cartesian only for direction "
        "sets that surround the origin); the four getters are called in random order, some twice. Non-trivial = n_b>=4 and n_o>=4 (both "
        "families of neighbours present); distinct by (b, o, t, factor, mode)")
ASSUMPTIONS = ["composition is checked against the sub-grids' own getters; their geometric truth is C03-C06/C15",
               "n_b in {2,3} (estimated rotation cells) is outside the quantifier and skipped", "products compared at rtol 1e-12; symmetry at 1e-8 relative (mirror faces of the rotation grid are computed separately and agree to ~1e-10)"]
EXHAUSTIVE = {"quick": False, "thorough": False}
MIN_NONTRIVIAL = {"quick": 12, "thorough": 300}
SHARD_TIMEOUT = {"quick": 1200, "thorough": 7200}


def origin_inside_hull(D):
    """True iff the origin lies strictly inside the convex hull of the direction set D (N,3)"""
    try:
        from scipy.spatial import ConvexHull
        if len(D) < 4:
            return False
        h = ConvexHull(D)
        return bool(np.all(h.equations[:, -1] < -1e-9))
    except Exception:
        return False


def f10_applies(self):
    pg = self.get_position_grid()
    return bool(getattr(pg, "position_grid_cartesian", False)) and \
        not origin_inside_hull(np.asarray(pg.get_o_grid().get_grid_as_array(), dtype=float))


def _parts(self, what):
    pg = self.get_position_grid()
    n_b = self.b_rotations.get_N()
    n_pos = len(pg)
    if what == "adjacency":
        Xp = pg.get_adjacency_of_position_grid()
        Xb = self.b_rotations.get_voronoi_adjacency(only_upper=True, include_opposing_neighbours=True) if n_b > 1 else None
    elif what == "borders":
        Xp = pg.get_borders_of_position_grid()
        Xb = self.b_rotations.get_cell_borders(only_upper=True, include_opposing_neighbours=True) if n_b > 1 else None
    else:
        Xp = pg.get_distances_of_position_grid()
        Xb = self.b_rotations.get_center_distances(only_upper=True, include_opposing_neighbours=True) if n_b > 1 else None
    Xp = sparse.csr_array(Xp.astype(float))
    Xb = sparse.csr_array((n_b, n_b)) if Xb is None else sparse.csr_array(Xb.astype(float))
    return Xp, Xb, n_pos, n_b


def _order_digest(M):
    if M.format == "coo":
        parts = (M.row, M.col)
    else:
        parts = (M.indices, M.indptr)
    h = hashlib.md5(M.format.encode())
    for p in parts:
        h.update(np.ascontiguousarray(p).astype(np.int64).tobytes())
    return h.hexdigest()


def _judge(self, result, what):
    mon = f"C02.{what}"
    try:
        n_b = self.b_rotations.get_N()
        if n_b in (2, 3):
            REC.skip(mon, "n_b in {2,3}: estimated rotation cells (outside the quantifier)")
            return True
        Xp, Xb, n_pos, n_b = _parts(self, what)
        n = n_pos * n_b
        f = float(self.factor)
        D_unused, problems = None, []
        c = result.tocoo()
        mech = None
        if c.shape != (n, n):
            problems.append(f"shape {c.shape} != {(n, n)}")
        else:
            data = np.asarray(c.data, dtype=float)
            if not np.all(np.isfinite(data)):
                problems.append("non-finite stored entries")
            if np.any(data <= 0):
                problems.append(f"{int(np.sum(data <= 0))} stored entries <= 0")
            if np.any(c.row == c.col):
                problems.append("stored diagonal entries")
            R = sparse.csr_array((data, (c.row, c.col)), shape=(n, n))
            if abs(R - R.T).max() > 1e-8 * max(1.0, abs(R).max()):  # mirror faces on S^3 are computed separately (agree to ~1e-10)
                problems.append("not symmetric")
            P = sparse.kron(Xp, sparse.identity(n_b, format="csr"), format="csr")
            Q = sparse.kron(sparse.identity(n_pos, format="csr"), Xb, format="csr")
            power = {"adjacency": 0, "borders": 2, "distances": 1}[what]
            cands = {"position": P * f ** power + Q, "rotation": P + Q * f ** power}
            fam = None
            for name, E in cands.items():
                diff = abs(R - E)
                scale = max(1.0, abs(E).max() if E.nnz else 1.0)
                if (diff.max() if diff.nnz else 0.0) <= 1e-12 * scale and (R != 0).nnz == (E != 0).nnz:
                    fam = name
                    break
            if fam is None:
                E = cands["position"]
                diff = abs(R - E).tocoo()
                k = int(np.argmax(diff.data)) if diff.nnz else 0
                i, j = (int(diff.row[k]), int(diff.col[k])) if diff.nnz else (0, 0)
                problems.append({"pair": [i, j], "reported": float(R[i, j]), "composition": float(E[i, j]),
                                 "position_cells": [i // n_b, j // n_b], "rotations": [i % n_b, j % n_b],
                                 "stored_entries": int((R != 0).nnz), "expected_entries": int((E != 0).nnz)})
            elif power and f != 1:
                prev = getattr(self, "_verif_c02_family", None)
                if prev is not None and prev != fam:
                    problems.append(f"factor applied to the {fam} family here but to the {prev} family in another matrix")
                try:
                    self._verif_c02_family = fam
                except Exception:
                    pass
            # one pattern and stored order across the triple (get_rate_matrix relies on it)
            od = _order_digest(result)
            seen = getattr(self, "_verif_c02_order", None) or {}
            for other, d in seen.items():
                if other != what and d != od:
                    problems.append(f"stored pattern/order differs between {what} and {other}")
            seen[what] = od
            try:
                self._verif_c02_order = seen
            except Exception:
                pass
        if problems:
            if f10_applies(self):
                mech = "cartesian_open_cells"
            REC.fail(mon, {"b": self.b_grid_name, "o": self.o_grid_name, "t": self.t_grid_name, "factor": f,
                           "cartesian": bool(self.get_position_grid().position_grid_cartesian), "problems": problems[:4]}, mechanism=mech)
        else:
            REC.ok(mon)
    except Exception as e:
        REC.crashed("C02.oracle_error", e)
    return True


def full_adjacency_observer(arguments, result, exc):
    if exc is not None or any((arguments.get("kwargs") or {}).values()):
        return  # partial matrices (only_position / only_orientation) are not the property's getters
    _judge(arguments["self"], result, "adjacency")


def full_distances_observer(arguments, result, exc):
    if exc is not None or any((arguments.get("kwargs") or {}).values()):
        return
    _judge(arguments["self"], result, "distances")


def full_borders_are_product(self, result):
    return _judge(self, result, "borders")


def total_volumes_are_products(self, result):
    mon = "C02.volumes"
    try:
        pg = self.get_position_grid()
        vp = np.asarray(pg.get_all_position_volumes(), dtype=float)
        vb = np.asarray(self.b_rotations.get_spherical_voronoi().get_voronoi_volumes(), dtype=float)
        f = float(self.factor)
        want = (vp[:, None] * vb[None, :] * f ** 3).ravel()
        got = np.asarray(result, dtype=float)
        problems = []
        if got.shape != want.shape:
            problems.append(f"shape {got.shape} != {want.shape}")
        else:
            if not np.allclose(got, want, rtol=1e-12, atol=0):
                k = int(np.argmax(np.abs(got - want)))
                problems.append({"cell": k, "reported": got[k], "V_pos*V_rot*f^3": want[k], "position": k // len(vb), "rotation": k % len(vb)})
            if np.any(got <= 0) or not np.all(np.isfinite(got)):
                problems.append(f"{int(np.sum(~(got > 0)))} volumes not strictly positive")
        if problems:
            REC.fail(mon, {"b": self.b_grid_name, "o": self.o_grid_name, "t": self.t_grid_name, "factor": f, "problems": problems},
                     mechanism="cartesian_open_cells" if f10_applies(self) else None)
        else:
            REC.ok(mon)
    except Exception as e:
        REC.crashed("C02.oracle_error", e)
    return True


def install():
    from molgri.space.fullgrid import FullGrid
    attach.outcome(FullGrid, "get_full_adjacency", full_adjacency_observer)
    attach.outcome(FullGrid, "get_full_distances", full_distances_observer)
    attach.ensure(FullGrid, "get_full_borders", full_borders_are_product)
    attach.ensure(FullGrid, "get_total_volumes", total_volumes_are_products)
    return FullGrid


SURROUNDING = {}


def surrounds(alg, N):
    if (alg, N) not in SURROUNDING:
        from molgri.space.rotobj import SphereGrid3DFactory
        SURROUNDING[(alg, N)] = origin_inside_hull(SphereGrid3DFactory.create(alg_name=alg, N=N).get_grid_as_array()) if N >= 4 else False
    return SURROUNDING[(alg, N)]


def drive(FullGrid, b, o, t, f, cart, order_seed):
    REC.begin_case({"b": b, "o": o, "t": t, "factor": f, "cartesian": cart, "order": order_seed},
                   cls=[f"cartesian={cart}", f"b_alg={b.split('_')[0]}", f"factor={f}"], sample=(order_seed % 7 == 0))
    try:
        if order_seed % 5 == 1:
            # history: the grid is built with the default factor and the public attribute is set afterwards, before the first getter
            # (all four quantities must follow the one factor the object has when it is asked)
            REC.classes["factor attribute assigned after construction"] += 1
            fg = FullGrid(b, o, t, position_grid_cartesian=cart)
            fg.factor = f
        else:
            fg = FullGrid(b, o, t, factor=f, position_grid_cartesian=cart)
        other = None
        if order_seed % 3 == 0:
            # history: between the construction of this grid and its first getter another constructor fails (a direction algorithm given
            # as rotation grid is a ValueError) and a grid of the same names with another factor is built and stays alive
            REC.classes["other grids built between construction and getters"] += 1
            try:
                FullGrid("ico_8", o, t, factor=7 * f, position_grid_cartesian=cart)
            except Exception:
                pass
            other = FullGrid(b, o, t, factor=2.5 * f, position_grid_cartesian=cart)
        calls = [fg.get_full_adjacency, fg.get_full_borders, fg.get_full_distances, fg.get_total_volumes]
        rng = random.Random(order_seed)
        rng.shuffle(calls)
        if other is not None:
            calls.insert(2, other.get_full_distances)     # the two live grids are asked alternately, each judged with its own factor
            calls.append(other.get_full_borders)
        if rng.random() < 0.4:
            calls.append(rng.choice(calls))
        if rng.random() < 0.4:
            calls.insert(rng.randrange(len(calls) + 1), fg.get_full_prefactors)   # the package's own in-place consumer of borders/distances
        from vlib.rec import call_and_hold
        call_and_hold(calls, "C02.returned_object_stable", hostile_caller=True)
        if fg.get_b_N() >= 4 and fg.get_o_N() >= 4:
            REC.nontrivial_case((b, o, t, f, cart))
    except Exception as e:
        REC.crashed("C02.call_raised", e)


def shards(tier, seed):
    n, per = (14, 2) if tier == "quick" else (32, 20)
    return [{"rseed": seed * 1000 + i, "count": per} for i in range(n)] + \
           [{"kind": "workflow_files", "rseed": seed * 1000 + 900 + i, "count": 2 if tier == "quick" else 6} for i in range(2)]


def run_workflow_files(spec):
    """the literal run: body of rule run_grid is executed and every file it writes is compared with the getter of that name.
    Layout as in the workflow: <experiments>/grids/<grid id>/<files>; the same grid specification is run several times in sibling folders
    with another factor / position mode (an execution must not depend on earlier executions), and grids with tiny borders are included"""
    import shutil
    import tempfile
    from vlib.props import c14
    from molgri.space.fullgrid import FullGrid
    repo = os.environ.get("VERIF_REPO", "/repo")
    rng = random.Random(spec["rseed"])
    parent = tempfile.mkdtemp(prefix="verif_c02w_")
    gid = 0
    try:
        body = c14.rule_body(os.path.join(repo, "workflow", "run_grid"), "run_grid")
        for it in range(spec["count"]):
            sp = c14.make_spec(rng)
            if it == 0:
                sp.update({"b": "randomQ_20", "o": "ico_12", "t": "[0.2, 0.3]", "factor": 1, "n_b": 20, "cartesian": False})   # rotation faces down to 8e-6
            if it == 1:
                sp.update({"factor": 0.001})                                                                               # position borders scaled by 1e-6
            variants = [(sp["factor"], sp["cartesian"]), (3 if sp["factor"] != 3 else 2, sp["cartesian"])]
            no = int(sp["o"].split("_")[-1])
            if no >= 4 and surrounds(sp["o"].split("_")[0], no):
                variants.append((sp["factor"], not sp["cartesian"]))
            for f, cart in variants:
                gid += 1
                d = os.path.join(parent, "grids", f"grid_{gid}")
                os.makedirs(d)
                REC.begin_case({"kind": "workflow run_grid", **sp, "factor": f, "cartesian": cart}, cls="workflow run_grid files")
                try:
                    paths = {k: os.path.join(d, v) for k, v in dict(full_array="full_array.npy", adjacency_array="adjacency_array.npz",
                             adjacency_only_position="adjacency_array_position.npz", adjacency_only_orientation="adjacency_array_orientation.npz",
                             distances_array="distances_array.npz", borders_array="borders_array.npz", volumes="volumes.npy").items()}
                    g = {"np": np, "sparse": sparse, "FullGrid": FullGrid,
                         "params": c14.ns(n_points_orientations=sp["b"], n_points_directions=sp["o"], radial_distances_nm=sp["t"],
                                          factor_orientation_to_position=float(f), position_grid_cartesian=bool(cart)),
                         "output": c14.ns(**paths), "input": c14.ns(), "config": {}}
                    exec(compile(body, "workflow/run_grid:run_grid", "exec"), g)
                    c14.check_workflow_files(paths, sp["b"], sp["o"], sp["t"], f, cart)
                    if sp["n_b"] >= 4:
                        REC.nontrivial_case(("workflow", sp["b"], sp["o"], sp["t"], f, cart))
                except Exception as e:
                    REC.crashed("C02.call_raised", e)
    finally:
        shutil.rmtree(parent, ignore_errors=True)


def run_shard(spec):
    geom3.install()
    from vlib.props import c05, c09, c16, c07
    c05.install(); c09.install(); c16.install(); c07.install()
    from vlib import geom4
    geom4.install(max_n=13)   # small rotation grids are also judged by the C04 monitors (cross-cutting)
    FullGrid = install()
    if spec.get("kind") == "workflow_files":
        return run_workflow_files(spec)
    rng = random.Random(spec["rseed"])
    nbs = [1, 4, 5, 8, 9, 13] + ([20] if spec["tier"] == "quick" else [20, 20, 40])
    for it in range(spec["count"]):
        nb = rng.choice(nbs)
        no = rng.choice([1, 4, 5, 7, 12, 13, 20, 42])
        balg = rng.choice(["cube4D", "randomQ"])
        oalg = rng.choice(["ico", "cube3D", "randomS"])
        T = rng.randint(2, 4)
        many = it == 0 or rng.random() < 0.1
        if many:
            # many shells on a small angular grid: anything computed from a position index by float arithmetic (k/n_t*n_t, index/n_points)
            # goes wrong only for particular shell counts (22, 23, 26, 39, 43-47, 49-52, ... for one such slip), so the count sweeps widely
            T = rng.randint(5, 70)
            nb, no = rng.choice([1, 4]), rng.choice([4, 5, 7])
        big = (it == 1 and spec["rseed"] % 1000 in ((0,) if spec["tier"] == "quick" else (0, 5, 11, 17, 23, 29))) and not many
        if big:
            # large position grids (more than 2^10 / 2^11 / 2^12 position cells, one or four rotations): anything that switches its
            # method with the size of the position grid (chunking, single precision "to save memory", another container) shows only here
            lim = rng.choice([1024, 1100] if spec["tier"] == "quick" else [1024, 2048, 2500, 4096])
            nb = 1 if lim > 1100 else rng.choice([1, 4])
            no = rng.choice([162, 300, 301, 520])
            T = lim // no + 1
        r = [rng.randint(5, 40) / 100]
        for _ in range(T - 1):
            r.append(round(r[-1] + rng.choice([0.02, 0.05, 0.1, 0.3]), 4))
        if many and rng.random() < 0.5:
            r = None      # an equidistant grid through the two- or three-argument linspace form (two arguments: 50 shells)
        if r is not None and rng.random() < 0.15:
            r = [float("%.6g" % (x * 1e-3)) for x in r]          # picometre shells: tiny borders and distances are still entries
        t = "[" + ", ".join(str(x) for x in r) + "]" if r is not None else \
            (f"linspace(0.2, {round(0.2 + 0.05 * T, 3)}, {T})" if rng.random() < 0.7 else "linspace(0.2, 1.5)")
        f = rng.choice([0.5, 1, 2, 3.7, 1e-3, 250.0, 3, 2500000, 3100000000])   # every factor f > 0, Python ints included (f^3 of the last two
        #                                                                              exceeds the 64-bit integer range)
        cart = rng.random() < 0.4 and no >= 4 and surrounds(oalg, no) and not big
        b, o = (f"{balg}_{nb}" if nb > 1 else "1"), (f"{oalg}_{no}" if no > 1 else "1")
        drive(FullGrid, b, o, t, f, cart, rng.randrange(10 ** 6))
        if no >= 4 and surrounds(oalg, no) and rng.random() < 0.5:
            # history: the same specification in the OTHER position mode, in the same process (nothing may be shared between the two)
            drive(FullGrid, b, o, t, f, not cart, rng.randrange(10 ** 6))


def replay(case):
    geom3.install()
    FullGrid = install()
    drive(FullGrid, case["b"], case["o"], case["t"], case["factor"], case["cartesian"], case.get("order", 0))
