"""C19 - every valid grid specification yields all geometry or a deliberate ValueError.

Outcome monitors (results and exception classes) around the real FullGrid.__init__ and its five getters.
"""
import itertools
import random

import numpy as np

from vlib import attach
from vlib.rec import REC

ID = "C19"
LEVEL = "exploration"
DECIDING = ["C19.construct", "C19.getter"]
RULE = ("exhaustive box: n_b, n_o in 1..5, n_t in {1,2} (quick) / {1,2,3} (thorough), both position modes, bare numbers and fulldiv_N names (quick) plus explicit "
        "algorithm names per role and two factors (thorough), number-less zero names, radii differing in the 8th decimal, and ordered histories of specifications inside one process (a deeper polytope grid before a shallower one, fulldiv after cube4D); for each specification the constructor and the five getters (array, volumes, "
        "adjacency, borders, distances) are called, every getter even if an earlier one failed. Non-trivial = specification with n>=2 cells; "
        "distinct by (b, o, t, mode)")
ASSUMPTIONS = ["allowed outcomes: correct shape (n x 7, n, n x n) or ValueError; in Cartesian mode with fewer than three directions the geometry "
               "library's QhullError at construction is also allowed"]
EXHAUSTIVE = {"quick": True, "thorough": True}
MIN_NONTRIVIAL = {"quick": 60, "thorough": 300}
SHARD_TIMEOUT = {"quick": 900, "thorough": 3600}

GETTERS = ("get_full_grid_as_array", "get_total_volumes", "get_full_adjacency", "get_full_borders", "get_full_distances")


def expected_size(b, o, t):
    """n_b*n_o*n_t read from the three strings by the harness itself: the number in a grid name (none = a single point), the radial text
    through the exact-rational reader of C16 (None when that reader does not understand it or the range length is float-ambiguous)"""
    import re
    from vlib.props import c16
    sizes = []
    for name in (b, o):
        nums = re.findall(r"(?<![A-Za-z0-9])\d+(?![A-Za-z0-9])", str(name).replace("_", " "))
        if len(nums) > 1:
            return None
        sizes.append(int(nums[0]) if nums else 1)
        if "zero" in str(name):
            sizes[-1] = 1
    got = c16.expected_array(t) if isinstance(t, str) else None
    if got is None or got[2]:
        return None
    return sizes[0] * sizes[1] * len(set(got[0]))


def classify(exc):
    name = type(exc).__name__
    msg = str(exc)
    if name == "AttributeError" and "_calculate_N_N_array" in msg:
        return "mikrovoronoi_no_N_N_array"
    if name == "IndexError" and "list index out of range" in msg:
        return "single_radius_increments_index_error"
    return None


def construct_observer(arguments, result, exc):
    mon = "C19.construct"
    try:
        if exc is None:
            REC.ok(mon)
            return
        cart = bool(arguments.get("position_grid_cartesian", False))
        if isinstance(exc, ValueError):
            REC.ok(mon + ".valueerror")
            REC.ok(mon)
            return
        if cart and type(exc).__name__ == "QhullError":
            REC.ok(mon + ".qhull_rejection")
            REC.ok(mon)
            return
        REC.crashed(mon, exc, mechanism=classify(exc))
    except Exception as e:
        REC.crashed("C19.oracle_error", e)


def make_getter_observer(gname):
    def observer(arguments, result, exc):
        mon = "C19.getter"
        try:
            self = arguments["self"]
            if any(k in arguments and arguments[k] for k in ("only_position", "only_orientation")) or \
                    (arguments.get("kwargs") and any(arguments["kwargs"].values())):
                return  # partial matrices are not the property's getters
            if exc is not None:
                if isinstance(exc, ValueError):
                    REC.ok(mon + ".valueerror")
                    REC.ok(mon)
                else:
                    REC.crashed(mon, exc, mechanism=classify(exc))
                return
            n = self.get_b_N() * self.get_o_N() * self.get_t_N()
            want = expected_size(self.b_grid_name, self.o_grid_name, self.t_grid_name)
            if want is not None and want != n:
                # the sizes the object believes in must be those of the specification it was built from (read independently of the package)
                REC.fail(mon, {"getter": gname, "problem": "the grid's own n_b*n_o*n_t differs from the specification",
                               "own": [self.get_b_N(), self.get_o_N(), self.get_t_N()], "specification_n": want,
                               "b": self.b_grid_name, "o": self.o_grid_name, "t": self.t_grid_name})
                return
            if gname == "get_full_grid_as_array":
                ok = np.asarray(result).shape == (n, 7)
            elif gname == "get_total_volumes":
                ok = np.asarray(result).shape == (n,)
            else:
                ok = tuple(result.shape) == (n, n)
            REC.check(mon, ok, lambda: {"getter": gname, "n": n, "shape": getattr(result, "shape", None) or np.asarray(result).shape,
                                        "b": self.b_grid_name, "o": self.o_grid_name, "t": self.t_grid_name})
        except Exception as e:
            REC.crashed("C19.oracle_error", e)
    observer.__name__ = "observe_" + gname
    return observer


def install():
    from molgri.space.fullgrid import FullGrid
    attach.outcome(FullGrid, "__init__", construct_observer)
    for g in GETTERS:
        attach.outcome(FullGrid, g, make_getter_observer(g), key=g)
    return FullGrid


TRUTHY = [True, np.True_, 1, np.float64(2.0) > 1]
FALSY = [False, np.False_, 0]


def drive(FullGrid, b, o, t, cart, factor=2, variant=0):
    """variant selects the spelling of the mode flag, the order of the getters and whether every getter is asked a second time (in reverse
    order): a grid must construct and answer whatever was asked of it before"""
    flag = (TRUTHY if cart else FALSY)[variant % 4 % (4 if cart else 3)]
    order = list(GETTERS)
    if variant:
        random.Random(variant).shuffle(order)
    REC.begin_case({"b": b, "o": o, "t": t, "cartesian": bool(cart), "factor": factor, "variant": variant},
                   cls=[f"cartesian={bool(cart)}", f"flag={type(flag).__name__}", f"getters_twice={variant % 3 == 1}"],
                   sample=(b == "2" and o == "3" and not cart))
    try:
        fg = FullGrid(b, o, t, factor=factor, position_grid_cartesian=flag)
    except Exception:
        return
    calls = order + (order[::-1] if variant % 3 == 1 else [])
    if variant % 2:
        # the position-level getters are reachable on the full grid too (attribute forwarding): asked in between, they are history only
        extra = ["get_distances_of_position_grid", "get_borders_of_position_grid", "get_adjacency_of_position_grid", "get_all_position_volumes"]
        rnd = random.Random(variant + 1)
        for g in rnd.sample(extra, rnd.randint(1, 4)):
            calls.insert(rnd.randrange(len(calls) + 1), g)
    for g in calls:
        try:
            getattr(fg, g)()
        except Exception:
            pass  # judged by the outcome monitor (the full getters); continue with the next getter
    try:
        if fg.get_b_N() * fg.get_o_N() * fg.get_t_N() >= 2:
            REC.nontrivial_case((b, o, t, cart, factor))
    except Exception:
        pass


def specs(tier):
    ts = ["[0.1]", "[0.1, 0.25]"] if tier == "quick" else ["[0.1]", "[0.1, 0.25]", "[0.3, 0.2, 0.5]", "0.2", "linspace(0.1, 0.3, 2)"]
    out = []
    for nb, no in itertools.product(range(1, 6), repeat=2):
        for t in ts:
            for cart in (False, True):
                out.append((str(nb), str(no), t, cart, 2))
                if tier == "thorough":
                    for b in (f"cube4D_{nb}", f"randomQ_{nb}"):
                        for o in (f"ico_{no}", f"cube3D_{no}", f"randomS_{no}"):
                            out.append((b, o, t, cart, 0.5))
    # the third rotation algorithm documents that only full subdivisions are supported: every other N must be a ValueError
    for nb in (1, 2, 5, 8, 9, 40):
        for cart in (False, True):
            out.append((f"fulldiv_{nb}", "4", ts[1], cart, 2))
    # the spellings of the single-point grids that carry no number, and radial grids whose radii differ only in the 8th decimal
    for cart in (False, True):
        for b, o in (("zero", "4"), ("zero4D", "5"), ("4", "zero"), ("5", "zero3D"), ("zero", "zero"), ("zero4D", "zero3D")):
            out.append((b, o, ts[1], cart, 2))
        for t in ("[0.3, 0.30000004]", "linspace(0.3, 0.30000006, 3)"):
            out.append(("1", "4", t, cart, 2))
            out.append(("4", "5", t, cart, 2))
    # radial grids with hundreds of shells on tiny angular grids (anything that treats the shell count as a small number breaks here)
    for t in ("linspace(0.1, 4, 257)", "range(1, 301)", "linspace(0.05, 3, 300)"):
        for b, o in (("1", "2"), ("2", "3"), ("1", "4")):
            out.append((b, o, t, False, 2))
    out.append(("1", "4", "linspace(0.1, 4, 257)", True, 2))
    # direction grids large enough for bounded Cartesian cells
    for o in ("ico_6", "cube3D_8", "ico_12", "randomS_9", "ico_20", "cube3D_26"):
        for cart in (False, True):
            out.append(("2", o, ts[1], cart, 2))
    if tier == "thorough":
        for t in ts:
            for cart in (False, True):
                out += [("fulldiv_8", "zero", t, cart, 1), ("zero", "ico_4", t, cart, 1), ("8", "12", t, cart, 3)]
    return out


def histories():
    """ordered sequences run inside ONE process: a specification must work whatever was built before it"""
    t = "[0.1, 0.25]"
    return [[("cube4D_9", "4", t, False, 2), ("fulldiv_8", "4", t, False, 2), ("cube4D_41", "4", t, False, 2), ("fulldiv_40", "1", t, False, 2),
             ("fulldiv_8", "5", t, True, 2)],
            [("4", "ico_13", t, False, 2), ("4", "ico_12", t, True, 2), ("4", "cube3D_27", t, False, 2), ("4", "cube3D_8", t, False, 2),
             ("5", "ico_4", t, False, 2)],
            [("fulldiv_40", "1", t, False, 2), ("fulldiv_8", "4", t, False, 2), ("randomQ_9", "randomS_9", t, True, 2), ("randomQ_4", "randomS_4", t, False, 2)]]


def shards(tier, seed):
    nsh = 8 if tier == "quick" else 16
    return [{"nshards": nsh, "shard": i, "seed": seed} for i in range(nsh)] + [{"history": k} for k in range(len(histories()))]


def run_shard(spec):
    FullGrid = install()
    if "history" in spec:
        for (b, o, t, cart, f) in histories()[spec["history"]]:
            drive(FullGrid, b, o, t, cart, f)
        return
    rng = random.Random(spec.get("seed", 0) * 1000 + spec["shard"])
    for k, (b, o, t, cart, f) in enumerate(specs(spec["tier"])):
        if k % spec["nshards"] == spec["shard"]:
            drive(FullGrid, b, o, t, cart, f)                                   # the plain form: literal flag, documented getter order
            if rng.random() < (0.5 if spec["tier"] == "quick" else 1.0):
                drive(FullGrid, b, o, t, cart, f, variant=rng.randint(1, 10 ** 6))  # another flag spelling / getter order / repeated getters


def replay(case):
    FullGrid = install()
    drive(FullGrid, case["b"], case["o"], case["t"], case["cartesian"], case.get("factor", 2), case.get("variant", 0))
