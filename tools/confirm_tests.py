#!/usr/bin/env python3
"""tools/confirm_tests.py <seeded-dir-name> "<pytest targets>" [-n K] : apply seeded/<name>/patch.diff in a scratch worktree, run the tests, record in meta.json"""
import json, os, subprocess, sys, tempfile, shutil
name, tests = sys.argv[1], sys.argv[2]
n = sys.argv[4] if len(sys.argv) > 4 else "4"
root = os.path.dirname(os.path.dirname(os.path.abspath(__file__)))
d = os.path.join(root, "seeded", name)
wt = tempfile.mkdtemp(prefix="molgri_seedtest_")
subprocess.run(f"git -C /repo worktree add -q --detach {wt} HEAD", shell=True, check=True)
try:
    subprocess.run(f"git -C {wt} apply {d}/patch.diff", shell=True, check=True)
    env = dict(os.environ, PYTHONPATH=wt, MPLBACKEND="agg")
    t = subprocess.run(f"/venv/bin/python -m pytest {tests} -q -p no:cacheprovider --timeout=900 -n {n} 2>&1 | tail -8", shell=True, cwd=wt, env=env, capture_output=True, text=True)
    meta = json.load(open(f"{d}/meta.json"))
    meta.setdefault("confirmed_by_verif", {})["tests_cmd"] = f"pytest {tests} -n {n}"
    meta["confirmed_by_verif"]["tests_tail"] = t.stdout[-600:]
    json.dump(meta, open(f"{d}/meta.json", "w"), indent=1)
    print(name, t.stdout.strip().splitlines()[-1] if t.stdout.strip() else "no output")
finally:
    subprocess.run(f"git -C /repo worktree remove --force {wt}", shell=True)
    shutil.rmtree(wt, ignore_errors=True)
