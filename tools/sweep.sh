#!/bin/sh
# tools/sweep.sh "<seeds>" <tier> <Cxx>...   -- run checks over several seeds without touching evidence; print one line each
SEEDS=$1; TIER=$2; shift 2
cd "$(dirname "$0")/.." || exit 2
for c in "$@"; do for s in $SEEDS; do
  out=$(VERIF_SEED=$s ./check $c --tier $TIER --no-evidence 2>&1); rc=$?
  echo "$c seed=$s tier=$TIER exit=$rc $(echo "$out" | head -1 | sed 's/.*cases=/cases=/')"
  [ $rc != 0 ] && echo "$out" | grep -E "violation|INCONCLUSIVE" | head -3 | cut -c1-400
done; done; exit 0
