#!/usr/bin/env python3
"""tools/process_seed.py <Cxx> <i> "<pytest targets>" [check ids...]
Confirm a sub-agent's seeded change independently in a fresh scratch worktree of /repo (current HEAD):
 demo passes without / fails with the patch, the given test targets still pass with it, then run the named checks
 (default: the property's own, quick tier) against the patched worktree.  Stores everything under /verif/seeded/<Cxx>-<i>/."""
import json, os, shutil, subprocess, sys, tempfile, time
pid, i, tests = sys.argv[1], sys.argv[2], sys.argv[3]
checks = sys.argv[4:] or [pid]
tier = os.environ.get("SEED_TIER", "quick")
rnd = os.environ.get("SEED_ROUND", "")
src = f"/tmp/seed{rnd}_{pid}/_seed"  # round 1: /tmp/seed_Cxx, round k: /tmp/seed<k>_Cxx
root = os.path.dirname(os.path.dirname(os.path.abspath(__file__)))
dst = os.path.join(root, "seeded", f"{pid}-{'r' + rnd + '-' if rnd else ''}{i}")
wt = tempfile.mkdtemp(prefix="molgri_seedchk_")
def sh(cmd, **kw):
    return subprocess.run(cmd, shell=True, capture_output=True, text=True, **kw)
sh(f"git -C /repo worktree add -q --detach {wt} HEAD")
res = {"property": pid, "patch": f"patch{i}.diff"}
try:
    env = dict(os.environ, PYTHONPATH=wt, PYTHONHASHSEED="0", MPLBACKEND="agg")
    demo = f"{src}/demo{i}.py"
    r0 = subprocess.run(["/venv/bin/python", demo], cwd=wt, env=env, capture_output=True, text=True, timeout=1200)
    res["demo_exit_unpatched"] = r0.returncode
    ap = sh(f"git -C {wt} apply {src}/patch{i}.diff")
    if ap.returncode != 0:
        ap = sh(f"git -C {wt} apply --3way {src}/patch{i}.diff")
    res["patch_applies"] = ap.returncode == 0
    if ap.returncode != 0:
        res["apply_error"] = ap.stderr[-500:]
    else:
        sh(f"git -C {wt} diff > {wt}/_applied.diff")
        r1 = subprocess.run(["/venv/bin/python", demo], cwd=wt, env=env, capture_output=True, text=True, timeout=1200)
        res["demo_exit_patched"] = r1.returncode
        res["demo_tail_patched"] = (r1.stdout + r1.stderr)[-400:]
        if tests.strip():
            t = subprocess.run(f"/venv/bin/python -m pytest {tests} -q -p no:cacheprovider --timeout=900 -n 6 2>&1 | tail -3", shell=True, cwd=wt, env=env, capture_output=True, text=True, timeout=3600)
            res["tests_cmd"] = f"pytest {tests}"
            res["tests_tail"] = t.stdout[-400:]
        res["checks"] = {}
        for c in checks:
            t0 = time.time()
            r = subprocess.run(["./check", c, "--tier", tier, "--no-evidence"], cwd=root, env=dict(os.environ, VERIF_REPO=wt), capture_output=True, text=True, timeout=7200)
            first_v = [l for l in r.stdout.splitlines() if l.strip().startswith("violation")][:1]
            res["checks"][c] = {"exit": r.returncode, "tier": tier, "wall_s": round(time.time() - t0, 1), "first_violation": (first_v[0][:400].replace(wt, "<wt>") if first_v else None)}
    os.makedirs(dst, exist_ok=True)
    if os.path.exists(f"{wt}/_applied.diff"):
        shutil.copy(f"{wt}/_applied.diff", f"{dst}/patch.diff")
    else:
        shutil.copy(f"{src}/patch{i}.diff", f"{dst}/patch.diff")
    shutil.copy(demo, f"{dst}/demo.py")
    meta = json.load(open(f"{src}/meta{i}.json"))
    meta["confirmed_by_verif"] = res
    json.dump(meta, open(f"{dst}/meta.json", "w"), indent=1)
    print(json.dumps(res, indent=1))
finally:
    sh(f"git -C /repo worktree remove --force {wt}")
    shutil.rmtree(wt, ignore_errors=True)
