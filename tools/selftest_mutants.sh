#!/bin/sh
# tools/selftest_mutants.sh [out.md] : every mutant of mutants/MAP.txt against the quick tier of the checks named there (scratch worktree of
# /repo outside /repo and /verif, VERIF_REPO pointing at it); writes a markdown table; exit 0 iff every pair exits 1.
cd "$(dirname "$0")/.." || exit 2
OUT=${1:-mutants/RESULTS.md}
echo "| mutant | check | exit (1 = caught) |" > "$OUT"; echo "|---|---|---|" >> "$OUT"
bad=0
grep -v '^#' mutants/MAP.txt | while read name checks; do
  [ -z "$name" ] && continue
  WT=$(mktemp -d /tmp/molgri_mut_XXXXXX)
  git -C /repo worktree add -q --detach "$WT" HEAD || continue
  if git -C "$WT" apply "$(pwd)/mutants/$name.patch"; then
    for c in $checks; do
      VERIF_REPO="$WT" ./check "$c" --tier quick --no-evidence > /dev/null 2>&1; rc=$?
      echo "| $name | $c | $rc |" >> "$OUT"; echo "$name $c -> $rc"
    done
  else
    echo "| $name | - | patch does not apply |" >> "$OUT"
  fi
  git -C /repo worktree remove --force "$WT"; rm -rf "$WT"
done
! grep -q "| [02] |$" "$OUT"
