#!/usr/bin/env python3
"""Print the markdown table of seeded changes (seeded/*/meta.json) for DESIGN.md section 10."""
import glob, json, os
root = os.path.dirname(os.path.dirname(os.path.abspath(__file__)))
rows = []
for p in sorted(glob.glob(os.path.join(root, "seeded", "*", "meta.json"))):
    d = json.load(open(p))
    name = os.path.basename(os.path.dirname(p))
    c = d.get("confirmed_by_verif", {})
    checks = ", ".join(f"{k}: exit {v['exit']}" for k, v in c.get("checks", {}).items())
    first = "caught by the unchanged check" if "verif_note" not in d else d["verif_note"]
    summary = (d.get("summary") or "").replace("\n", " ").replace("|", "/")
    if len(summary) > 230:
        summary = summary[:227] + "..."
    rows.append(f"| {name} | {summary} | {checks} | {first.replace('|', '/')} |")
print("| seeded change | what it does (sub-agent's summary) | result (quick tier) | history |")
print("|---|---|---|---|")
print("\n".join(rows))
