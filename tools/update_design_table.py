#!/usr/bin/env python3
"""Regenerate the seeded-change table of DESIGN.md section 11 (between the SEED_TABLE markers)."""
import os, subprocess
root = os.path.dirname(os.path.dirname(os.path.abspath(__file__)))
p = os.path.join(root, "DESIGN.md")
s = open(p).read()
a = s.index("<!-- SEED_TABLE_BEGIN -->") + len("<!-- SEED_TABLE_BEGIN -->\n")
b = s.index("<!-- SEED_TABLE_END -->")
table = subprocess.run(["python3", os.path.join(root, "tools", "gen_seed_table.py")], capture_output=True, text=True).stdout
open(p, "w").write(s[:a] + table + s[b:])
print("table rows:", table.count("\n") - 2)
