#!/bin/sh
# tools/mutant_test.sh <patch-file> <Cxx> [tier]  -- apply a patch to a scratch worktree of /repo (outside /repo and /verif),
# run the check against it with VERIF_REPO, print the exit code, remove the worktree. Exit 0 iff the check exited 1.
set -u
PATCH=$(readlink -f "$1"); PROP=$2; TIER=${3:-quick}
WT=$(mktemp -d /tmp/molgri_mut_XXXXXX)
git -C /repo worktree add -q --detach "$WT" HEAD || exit 3
if ! git -C "$WT" apply "$PATCH"; then echo "PATCH DOES NOT APPLY"; git -C /repo worktree remove --force "$WT"; exit 3; fi
cd "$(dirname "$0")/.." || exit 3
OUT=$(mktemp)
VERIF_REPO="$WT" ./check "$PROP" --tier "$TIER" --no-evidence > "$OUT" 2>&1; rc=$?
grep -v "^   monitor" "$OUT" | sed "s#$WT#<wt>#g" | cut -c1-400 | head -${MUT_LINES:-8}
rm -f "$OUT"
git -C /repo worktree remove --force "$WT"; rm -rf "$WT"
echo "mutant $(basename "$PATCH") on $PROP -> exit $rc"
[ "$rc" = 1 ]
