#!/usr/bin/env python3
"""tools/mkmutant.py <name> <repo-relative-file> <old> <new> [<file2> <old2> <new2> ...] -> mutants/<name>.patch (unified diff vs /repo working tree)"""
import difflib, sys, os
name = sys.argv[1]
args = sys.argv[2:]
out = []
for k in range(0, len(args), 3):
    rel, old, new = args[k:k+3]
    old = old.encode().decode('unicode_escape'); new = new.encode().decode('unicode_escape')
    src = open(os.path.join('/repo', rel)).read()
    assert src.count(old) == 1, (rel, old, src.count(old))
    dst = src.replace(old, new)
    out.extend(difflib.unified_diff(src.splitlines(True), dst.splitlines(True), 'a/' + rel, 'b/' + rel))
path = os.path.join(os.path.dirname(os.path.dirname(os.path.abspath(__file__))), 'mutants', name + '.patch')
open(path, 'w').write(''.join(out))
print(path)
