#!/usr/bin/env python3
"""tools/gen_bounds_table.py <thorough-log> : markdown table of what the quick (committed evidence) and thorough (log of a background run)
tiers actually covered."""
import json, os, re, sys
root = os.path.dirname(os.path.dirname(os.path.abspath(__file__)))
thor = {}
for line in open(sys.argv[1]):
    m = re.match(r"\[(C\d+)\] tier=thorough seed=(\d+) shards=(\d+) cases=(\d+) evaluations=(\d+) distinct_nontrivial=(\d+) wall=([\d.]+)s verdict=(\w+)", line)
    if m:
        thor[m.group(1)] = m.groups()
print("| id | quick: cases / monitor evaluations / distinct non-trivial / wall | thorough: cases / evaluations / distinct non-trivial / wall / verdict |")
print("|---|---|---|")
for i in range(1, 21):
    c = f"C{i:02d}"
    e = json.load(open(os.path.join(root, "evidence", c + ".json")))
    cov = e["coverage"]
    q = f"{cov['cases']} / {cov['evaluations']} / {cov['distinct_nontrivial']} / {e['wall_s']:.0f} s"
    t = thor.get(c)
    tt = f"{t[3]} / {t[4]} / {t[5]} / {float(t[6]):.0f} s / {t[7]}" if t else "-"
    print(f"| {c} | {q} | {tt} |")
