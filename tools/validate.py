#!/opt/veriftools/pyvenv/bin/python
"""Validate MANIFEST.json and every evidence file against the schemas."""
import json, sys, glob, os
import jsonschema
root = os.path.dirname(os.path.dirname(os.path.abspath(__file__)))
ok = True
def val(path, schema):
    global ok
    try:
        jsonschema.validate(json.load(open(path)), json.load(open(schema)))
        print("valid  ", path)
    except Exception as e:
        ok = False
        print("INVALID", path, str(e).splitlines()[0])
val(os.path.join(root, "MANIFEST.json"), "/root/.vp/MANIFEST.schema.json")
for p in sorted(glob.glob(os.path.join(root, "evidence", "*.json"))):
    val(p, "/root/.vp/EVIDENCE.schema.json")
sys.exit(0 if ok else 1)
