#!/bin/sh
# tools/recheck_seeds.sh <Cxx> [tier] : re-apply every stored seeded change of a property (seeded/<Cxx>-*/patch.diff) to a scratch worktree of
# /repo's HEAD and run the property's check against it; prints one line per change (exit 1 = still caught). Patches that no longer apply to
# the current HEAD (later fix commits touched the same lines) are reported as such. Exit 0 iff every applicable change is caught.
P=$1; TIER=${2:-quick}
cd "$(dirname "$0")/.." || exit 2
bad=0
for d in seeded/$P-*/; do
  [ -f "$d/patch.diff" ] || continue
  WT=$(mktemp -d /tmp/molgri_rs_XXXXXX)
  git -C /repo worktree add -q --detach "$WT" HEAD || continue
  if git -C "$WT" apply "$(pwd)/$d/patch.diff" 2>/dev/null; then
    VERIF_REPO="$WT" ./check "$P" --tier "$TIER" --no-evidence > /dev/null 2>&1; rc=$?
    echo "$(basename $d) -> exit $rc"
    [ "$rc" = 1 ] || bad=1
  else
    echo "$(basename $d) -> patch does not apply to the current HEAD"
  fi
  git -C /repo worktree remove --force "$WT"; rm -rf "$WT"
done
exit $bad
