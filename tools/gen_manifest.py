#!/usr/bin/env python3
"""Regenerate MANIFEST.json from the table below (one entry per built check) so that it is always schema-valid."""
import json
import os

ROOT = os.path.dirname(os.path.dirname(os.path.abspath(__file__)))

COMMON_NOTE = ("Trusted base: CPython 3.12, numpy/scipy, icontract (or vlib.attach's built-in wrapper), the harness' own oracle "
               "(independent of molgri, see DESIGN.md section 3.2/5). Decides only the executions produced; nothing is 'verified'.")

CHECKS = {
    "C12": dict(
        technique="runtime monitor (postcondition on MSM.get_one_tau_transition_matrix) against an executable counting model; exhaustive short trajectories + random long ones",
        text="Every call of the real MSM.get_one_tau_transition_matrix made by the workload is compared entry by entry with a 15-line "
             "counting model, plus row-sum, range, detailed-balance and (by a second monitored call) reversal checks. The workload "
             "enumerates ALL trajectories over {0,1,2,NaN} up to length 5 (quick) / 7 (thorough) for every tau and both window modes, "
             "and adds random long trajectories with NaN runs; exploration level, exhaustive inside the stated box.",
        design_ref="5/C12"),
}

NOT_BUILT_REASON = "check not built yet in this round (planned, see DESIGN.md section 5)"


def main():
    props = [json.loads(l) for l in open(os.path.join(ROOT, "properties.jsonl"))]
    checks = []
    na = []
    for p in props:
        pid = p["id"]
        c = CHECKS.get(pid)
        if c is None or not os.path.exists(os.path.join(ROOT, "vlib", "props", pid.lower() + ".py")):
            na.append({"property_id": pid, "reason": NOT_BUILT_REASON})
            continue
        checks.append({
            "property_id": pid,
            "quick_cmd": f"./check {pid} --tier quick",
            "thorough_cmd": f"./check {pid} --tier thorough",
            "evidence_file": f"/verif/evidence/{pid}.json",
            "replay_cmd_template": f"./check {pid} --replay {{path}}",
            "engine": "vlib",
            "level_claimed": {"category": c.get("category", "exploration"), "text": c["text"],
                              "design_ref": "DESIGN.md section " + c["design_ref"]},
            "level_note": c.get("note", COMMON_NOTE),
            "technique": c["technique"],
        })
    man = {
        "version": 1,
        "setup_cmd": "./setup.sh",
        "hooks": {
            "guard": "MOLGRI_VERIF",
            "enable": "no source hooks in /repo: monitors are attached from outside by vlib.attach (icontract.ensure/snapshot on the real "
                      "functions) in the worker processes, which run with MOLGRI_VERIF=1 and PYTHONPATH=$VERIF_REPO (default /repo)",
            "baseline_off_cmd": "cd /repo && /venv/bin/python -m pytest -ra -q -p no:cacheprovider --timeout=900 --continue-on-collection-errors",
            "source_commits": [],
            "add_only": True,
        },
        "engines": [{"name": "vlib", "path": "/verif/vlib", "serves_properties": [c["property_id"] for c in checks],
                     "kind_free_text": "runtime monitoring: contracts on the real molgri functions + independent reference oracles + "
                                       "exhaustive/random/hostile workloads, sharded over subprocesses"}],
        "checks": checks,
        "notes": "Exit codes: 0 held on everything explored, 1 VIOLATION (replay file written), 2 INCONCLUSIVE (harness could not "
                 "observe: deciding monitor never evaluated, shard hit the watchdog, too few non-trivial cases). Known findings: "
                 "/verif/known_findings.json.",
        "not_applicable": na,
    }
    with open(os.path.join(ROOT, "MANIFEST.json"), "w") as f:
        json.dump(man, f, indent=1)
    print(f"MANIFEST.json: {len(checks)} checks, {len(na)} not claimed")


if __name__ == "__main__":
    main()
