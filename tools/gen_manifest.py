#!/usr/bin/env python3
"""Regenerate MANIFEST.json from the table below (one entry per built check) so that it is always schema-valid."""
import json
import os

ROOT = os.path.dirname(os.path.dirname(os.path.abspath(__file__)))

COMMON_NOTE = ("Trusted base: CPython 3.12, numpy/scipy, icontract (or vlib.attach's built-in wrapper), the harness' own oracle "
               "(independent of molgri, see DESIGN.md section 3.2/5). Decides only the executions produced; nothing is 'verified'.")

CHECKS = {
    "C14": dict(
        technique="end-to-end pipeline monitor: literal workflow rule bodies executed under stage monitors (C20, C01, C02, C09) plus pipeline postconditions (detailed balance, pattern, dense-solver agreement of DecompositionTool.get_decomposition)",
        text="The literal run: bodies of rules run_grid, run_sqra and run_decomposition are extracted from the workflow files and executed with stub "
             "namespaces (or the same library calls directly), every stage under its own monitors; on the LOADED arrays the harness checks "
             "detailed balance w.r.t. V_i exp(-E_i/RT) in grid order (1e-9 relative), off-diagonal pattern = saved adjacency, files = getters of "
             "that name; a postcondition on DecompositionTool.get_decomposition requires real, descending eigenvalues that each match a dense "
             "numpy eigenvalue, and for settings targeting the top of the spectrum a zero largest eigenvalue with left eigenvector proportional to "
             "V exp(-E/RT) (judged when the spectral gap is resolved at the solver tolerance). The returned eigenvalues must also be the ones "
             "the selection rule (LR/SR/LM/SM, on 1/(lambda-sigma) with a shift) picks from the dense spectrum; the reference is the matrix "
             "the tool was constructed with, which must be unchanged after every call; every disagreement is repeated twice on fresh tools "
             "before it counts (ARPACK starts from a random vector). 'SM' without a shift misses the eigenvalue zero: known finding F19 "
             "(KNOWN-FINDING line, exit 0). Twin pipelines in one folder, a failed first request and flat landscapes are part of the workload.",
        design_ref="5/C14"),
    "C10": dict(
        technique="runtime monitors (postconditions with reference snapshots on Pseudotrajectory.__init__/get_pt_as_universe, PtWriter.__init__/write_full_pt) against an own quaternion->matrix and rigid-placement formula",
        text="Every frame of every pseudotrajectory the workload produces is compared with R(q_k)(x_ref - com) + com + p_k (own scalar-last quaternion "
             "formula), first molecule unchanged, intramolecular distances, atom order/names/types, frame count; for the writer route the written "
             "xyz file is read back. Molecules are generated files (single atoms, collinear, planar, non-planar, off-centre; xyz/gro/pdb) read "
             "through the package's reader; arrays are real grids, re-sorted/thinned grids, random quaternions of both signs, orientation pools, "
             "near-identity rotations; histories include PtWriter -> write_structure -> write_full_pt.",
        design_ref="5/C10"),
    "C11": dict(
        technique="runtime monitor (postcondition on AssignmentTool.get_full_assignments) against nearest-radius / nearest-direction / max |q.q_b| computed from the known placements, with ambiguity margins",
        text="Placements with known position and rotation are produced through the monitored pseudotrajectory code and assigned by the real tool; "
             "every frame outside the ambiguity margins must get (t*n_o+o)*n_b+b, NaN beyond the outer boundary unless outliers are included, and a "
             "grid's own pseudotrajectory must map to 0,1,2,... Set-ups vary grid sizes (non-equidistant and large radii), both metrics, both "
             "outlier settings, planar/non-planar second molecules, repeated use of one grid array.",
        design_ref="5/C11"),
    "C15": dict(
        technique="runtime monitor (postcondition on HalfRotobjVoronoi/MikroVoronoi.get_voronoi_volumes) against a Monte-Carlo nearest-rotation measure with sequential error control",
        text="Every volume vector of the real rotation grids is judged: positive, equal to the first N of the 2N double-cover volumes, sum within 12% "
             "of pi^2, each cell within 30% of the Monte-Carlo measure of {x on S^3: argmax|x.q| = i} (violated only beyond 4 standard errors, sample "
             "quadrupled up to 2.6e7, else ambiguous); N<4 and 3-D N<4: the documented equal shares exactly. Known finding F12 (randomQ_5 cell 4).",
        design_ref="5/C15"),
    "C06": dict(
        technique="runtime monitors (postconditions on the PositionGrid getters in Cartesian mode) against an own Euclidean Voronoi oracle (Newell face areas, cone-sum volumes) cross-checked by qhull-free half-plane clipping",
        text="Every volume / border / distance result of real Cartesian-mode PositionGrid objects is compared with the Euclidean Voronoi cells of the "
             "harness' own point set (directions x radii + extra shell): volumes by cone sums, faces by Newell's formula on the ridge polygons, "
             "distances |p_i-p_j|, pattern equal to the adjacency, symmetry, strict positivity. In every run sampled faces are recomputed by "
             "clipping the bisector plane with all other half-spaces (no qhull). Grids whose direction set does not surround the origin have "
             "unbounded cells: known finding F10 (KNOWN-FINDING line, exit 0), attributed only to non-positive values reported for unbounded cells and faces; a bounded face between two open cells is judged. Disagreements with the qhull oracle are arbitrated by the clipping oracle; tolerance follows the measured conditioning; order_points itself is monitored; near-twin grids, flag spellings and hostile process state (numpy print options) are part of the workload.",
        design_ref="5/C06"),
    "C04": dict(
        technique="runtime monitors (outcome monitors on the default folded getters of every 4-D grid object) against a polar-duality face-area oracle on the double cover (LP interior point + own 2-D hull), MC self-test of the oracle",
        text="Every adjacency / border / distance matrix of the real rotation-grid objects is judged pair by pair: the oracle computes, for ALL "
             "pairs of the 2N-point double cover, the area of the common face as 2*pi minus the perimeter of the spherical hull of the constraint "
             "normals (4-variable LP for an interior direction, gnomonic projection, own monotone-chain hull; no qhull), folds by sign itself, "
             "and requires: adjacency <=> a direct or antipodal face exists, distance = arccos|q_i.q_j|, border = the face's area when exactly "
             "one face exists, symmetry, empty diagonal, one pattern - explicitly counting pairs through index 0 and pairs adjacent only through "
             "the antipode. The oracle is re-validated against Monte-Carlo in every run.",
        design_ref="5/C04"),
    "C02": dict(
        technique="runtime monitors (postconditions / outcome monitors on FullGrid.get_full_adjacency/borders/distances/get_total_volumes) against a sparse Kronecker composition of the sub-grids' own quantities",
        text="Every full-grid matrix is compared with kron(X_pos, I)*alpha + kron(I, X_rot)*beta built from the object's own position-grid and "
             "rotation-grid getters (uniform factor family, same for borders and distances), and judged for symmetry, empty diagonal, strictly "
             "positive finite entries, one pattern and stored order across the triple; volumes against V_pos*V_rot*f^3 in grid order. The "
             "C03/C05/C07/C09/C16 monitors run on the same executions. Random grids over both rotation algorithms (n_b up to 20 quick / 40 "
             "thorough), three direction algorithms, unequal radii, four factors, both modes.",
        design_ref="5/C02"),
    "C08": dict(
        technique="online RNG trace specification over hooked numpy.random calls + offline bitwise comparison of recorded getter digests across random histories and a fresh interpreter",
        text="(i) every call to numpy's global generator is logged with its call site; an online checker requires that every draw made from molgri "
             "code is preceded, with no foreign draw or seed in between, by a molgri seed() whose value is constant per call site; (ii) every "
             "getter result in random histories (constructions of grids of mixed algorithms, larger polytope grids built first, repeated and "
             "interleaved getters, user reseeding and draws, in-place helper filtering) is compared bit by bit with the digest a fresh interpreter "
             "(other PYTHONHASHSEED) produced; (iii) prefix pairs grid(N) == grid(N+M)[:N] for the polytope algorithms.",
        design_ref="5/C08"),
    "C18": dict(
        technique="invariant at a hook (icontract postcondition + snapshot on the polytope classes' __init__/divide_edges, get_nodes, get_half_of_hypercube) against independently built ideal lattices",
        text="After every construction and every divide_edges of the three real polytope classes the whole node set is compared with an "
             "independently generated lattice (cube/hypercube boundary lattice, frequency-2^k icosahedral lattice), together with projection, "
             "negation closure, index range, level monotonicity and - against a snapshot taken before the call - permanence of every earlier "
             "index; get_nodes / get_half_of_hypercube results are compared with the graph sorted by permanent index (catches a stale sorted-node "
             "cache). Complete to the levels any N within the exploration bound can reach (ico/cube level 4, hypercube level 2), with getter "
             "calls interleaved between subdivisions.",
        design_ref="5/C18"),
    "C07": dict(
        technique="runtime monitors (postconditions on SphereGrid3DFactory.create / SphereGrid4DFactory.create) with norm / distinctness / separation / hemisphere / double-cover predicates; sweep over every N",
        text="Every grid the real factories return is judged: N rows, unit norm, pairwise distinct, polytope separation bounds, canonical "
             "hemisphere, no two rows equal up to sign, double cover = [G; -G] bit-exactly, N=1-by-name = identity / z. Workload: all algorithms, "
             "every N up to 60 (3-D) / 43 (4-D) quick, 700 / 140 (+271..273) thorough, fulldiv sizes and rejections, zero grids.",
        design_ref="5/C07"),
    "C09": dict(
        technique="runtime monitors (postconditions on FullGrid.get_full_grid_as_array, index helpers, from_full_array_to_o_b_t) against the row formula built from the three generating grids",
        text="Every full-grid array is compared row by row with [10*r_t*d_o, q_b] for t,o,b derived from the row index (quaternions bit-exact), the "
             "index helpers with n div n_b / n mod n_b for all and for random index subsets, and the decomposition with the generating grids in "
             "original order. Random grids over all algorithm combinations, unsorted radial input.",
        design_ref="5/C09"),
    "C19": dict(
        technique="outcome monitors (exception class / result shape) on FullGrid.__init__ and its five getters; exhaustive small box",
        text="Every construction and getter call of the real FullGrid is judged by outcome: correct shape or ValueError (QhullError allowed at "
             "construction in Cartesian mode with <3 directions); any other exception class is a violation. Exhaustive over n_b,n_o in 1..5, "
             "n_t in {1,2} (quick) / {1,2,3} plus explicit algorithm names (thorough), both position modes.",
        design_ref="5/C19"),
    "C03": dict(
        technique="runtime monitors (postconditions on the Voronoi getters of every 3-D grid object) against a pure-numpy bisector-arc oracle; sweep over every N",
        text="Every adjacency / border / centre-distance / area result of the real direction-grid objects is compared, pair by pair, with an "
             "independent oracle (border of cells i,j = largest angular gap of the constraint directions on the bisector circle minus pi; areas by "
             "triangle sums; no scipy geometry) plus symmetry / empty diagonal / positivity / common-pattern predicates. Workload: ico, cube3D, "
             "randomS at ~46 values of N (quick) or every N in 4..300 and 386/387/642/643 (thorough). The same monitors run inside the C05/C02/"
             "C09/C14 workloads.",
        design_ref="5/C03"),
    "C05": dict(
        technique="runtime monitors (postconditions on the PositionGrid getters, spherical mode) against closed shell formulas fed by the independent sphere oracle and an exact re-reading of the radial text",
        text="Every volume / adjacency / border / distance result of real PositionGrid objects is compared cell by cell and pair by pair with the "
             "closed formulas of the statement (areas, arcs, angles from the C03 oracle; radii re-read from the text with Fractions) and the three "
             "sum rules. Workload: random grids (3 algorithms, N 4..60, T 1..6, unequal increments up to ratio 50, five text syntaxes, radial "
             "scales from sub-picometre to micrometre), getters in random order, repeated, stand-alone and through a FullGrid whose own scaled "
             "matrices were requested first.",
        design_ref="5/C05"),
    "C17": dict(
        technique="outcome monitor (results and exception classes) on GridNameParser.__init__ against a relational specification over the token language; exhaustive enumeration",
        text="Every parse of the real GridNameParser (both roles) is judged - whether it returned or raised - by a relational specification "
             "(allowed outcome set per name: ValueError or a role-valid (algorithm, N>=1) with N=1 <=> zero algorithm, number/algorithm kept, "
             "two numbers or two algorithm tokens rejected, canonical names accepted); valid outcomes are re-parsed and built through the "
             "real factories (exactly N points). Exhaustive over all names of <=3 (quick) / <=4 (thorough) tokens from a 22-token alphabet.",
        design_ref="5/C17"),
    "C20": dict(
        technique="runtime monitors on GridWriter.save_* / GridReader.load_* (bitwise comparison per path) and EnergyReader loaders (generated-file ground truth)",
        text="Outcome monitors on the real GridWriter.save_* remember per path what was handed to the writer; postconditions on GridReader.load_* "
             "compare shape, dtype, sparse format, index arrays and data bit by bit, across histories that re-use file names. Postconditions on "
             "EnergyReader.load_energy/load_single_energy_column compare against the table the generator wrote (hostile xvg headers, legends, "
             "number formats) and the csv round trip of the loaded frame.",
        design_ref="5/C20"),
    "C13": dict(
        technique="runtime monitors (postconditions with snapshots on merge_matrix_cells, delete_rate_cells, SQRA.cut_and_merge) against a partition/lumping model; exhaustive operation histories + random hostile join lists",
        text="Every call of the real merge/delete functions is checked against a one-step lumping model computed from the incoming matrix, "
             "incoming index list (snapshot) and join/remove list; in addition the workload threads the index list through whole histories and "
             "checks every off-diagonal entry against the sum over the ORIGINAL matrix (powers of two: exact). Exhaustive over all set "
             "partitions, deletion subsets and operation sequences (n<=4, <=2 ops quick; n<=5, <=3 ops thorough), random n<=12 with stale, "
             "repeated and overlapping members; dense-vs-sparse, one-shot-vs-stepwise and permutation equivalences; cut_and_merge with the four "
             "limit combinations against an independently computed merge/delete set.",
        design_ref="5/C13"),
    "C01": dict(
        technique="runtime monitor (postcondition + input snapshot on SQRA.get_rate_matrix) against the closed-form SqRA entry formula, log-space detailed balance, metamorphic re-calls",
        text="Every call of the real SQRA.get_rate_matrix is compared entry by entry with D*S/(h*V_i)*exp(min(dE,500)*1000/(2RT)) computed from the "
             "object's own inputs; pattern, diagonal, row sums, detailed balance (log space, pairs below the cap) and input immutability are "
             "checked; the workload re-calls with shifted energies and scaled D. Random hostile systems (disconnected patterns, isolated rows, "
             "gaps beyond the cap, both storage forms) n<=12; all 64 symmetric patterns for n=4.",
        design_ref="5/C01"),
    "C16": dict(
        technique="runtime monitors (postconditions on TranslationParser.__init__, get_increments, get_between_radii) against an exact-rational re-reading of the same text",
        text="Every radial-grid text the workload (or any other check) hands to the real parser is re-read by the harness' own Fraction-based reader; "
             "radii, order, unit conversion, hash, increments and shell boundaries are compared. Workload: thousands of generated texts in all "
             "accepted syntaxes with hostile whitespace/number styles, ascending and descending parameterisations, negative entries, "
             "same-array syntax groups, plus all short decimal lists.",
        design_ref="5/C16"),
    "C12": dict(
        technique="runtime monitor (postcondition on MSM.get_one_tau_transition_matrix) against an executable counting model; exhaustive short trajectories + random long ones",
        text="Every call of the real MSM.get_one_tau_transition_matrix made by the workload is compared entry by entry with a 15-line "
             "counting model, plus row-sum, range, detailed-balance and (by a second monitored call) reversal checks. The workload "
             "enumerates ALL trajectories over {0,1,2,NaN} up to length 5 (quick) / 7 (thorough) for every tau and both window modes, "
             "and adds random long trajectories with NaN runs; exploration level, exhaustive inside the stated box.",
        design_ref="5/C12"),
}

# additions of the sixth seeding round (2026-09-28), appended to the texts above
EXTRA = {
    "C02": " One grid of the quick tier (six of the thorough tier) has more than 2^10 (up to 2^12) position cells, so size-dependent branches "
           "are reached; a fifth of the cases assign the public factor attribute after construction.",
    "C05": " Radial grids with 7..70 shells on small direction grids are part of every shard; same-shell faces are judged at 1e-10 relative plus "
           "an absolute arc accuracy of 1e-11.",
    "C07": " The predicate q_in_upper_sphere (behind get_upper_indices, the Voronoi half selection and the polytope half) is itself monitored "
           "(first non-zero coordinate positive) on hostile vectors and on every call the grids make.",
    "C09": " One grid of the quick tier (four of the thorough tier) has more than 2^16 rows with a rotation count that is not a power of two.",
    "C10": " A third of the generated gro/pdb molecules consist of two residues / two chains (segments).",
    "C12": " The model's input is the trajectory handed to the MSM constructor (recorded there), not what the object kept of it.",
    "C16": " Negative distances are driven through lists, linspace (either end point) and range/arange (negative start, or a descending range "
           "running through the origin); the same array is requested through ascending and descending forms, also starting at the origin.",
}
for _k, _v in EXTRA.items():
    CHECKS[_k]["text"] += _v
COMMON_NOTE_STATES = (" Every worker process runs in one of three process states (default; numpy print options changed; python -O with the "
                      "package's assert statements stripped), recorded per case in the evidence.")
for _c in CHECKS.values():
    _c["note"] = _c.get("note", COMMON_NOTE) + COMMON_NOTE_STATES

NOT_BUILT_REASON = "check not built yet in this round (planned, see DESIGN.md section 5)"


def main():
    props = [json.loads(l) for l in open(os.path.join(ROOT, "properties.jsonl"))]
    checks = []
    na = []
    for p in props:
        pid = p["id"]
        c = CHECKS.get(pid)
        if c is None or not os.path.exists(os.path.join(ROOT, "vlib", "props", pid.lower() + ".py")):
            na.append({"property_id": pid, "reason": NOT_BUILT_REASON})
            continue
        checks.append({
            "property_id": pid,
            "quick_cmd": f"./check {pid} --tier quick",
            "thorough_cmd": f"./check {pid} --tier thorough",
            "evidence_file": f"/verif/evidence/{pid}.json",
            "replay_cmd_template": f"./check {pid} --replay {{path}}",
            "engine": "vlib",
            "level_claimed": {"category": c.get("category", "exploration"), "text": c["text"],
                              "design_ref": "DESIGN.md section " + c["design_ref"]},
            "level_note": c.get("note", COMMON_NOTE),
            "technique": c["technique"],
        })
    man = {
        "version": 1,
        "setup_cmd": "./setup.sh",
        "hooks": {
            "guard": "MOLGRI_VERIF",
            "enable": "no source hooks in /repo: monitors are attached from outside by vlib.attach (icontract.ensure/snapshot on the real "
                      "functions) in the worker processes, which run with MOLGRI_VERIF=1 and PYTHONPATH=$VERIF_REPO (default /repo)",
            "baseline_off_cmd": "cd /repo && /venv/bin/python -m pytest -ra -q -p no:cacheprovider --timeout=900 --continue-on-collection-errors",
            "source_commits": [],
            "add_only": True,
        },
        "engines": [{"name": "vlib", "path": "/verif/vlib", "serves_properties": [c["property_id"] for c in checks],
                     "kind_free_text": "runtime monitoring: contracts on the real molgri functions + independent reference oracles + "
                                       "exhaustive/random/hostile workloads, sharded over subprocesses"}],
        "checks": checks,
        "notes": "Exit codes: 0 held on everything explored, 1 VIOLATION (replay file written), 2 INCONCLUSIVE (harness could not "
                 "observe: deciding monitor never evaluated, shard hit the watchdog, too few non-trivial cases). Known findings: "
                 "/verif/known_findings.json.",
        "not_applicable": na,
    }
    with open(os.path.join(ROOT, "MANIFEST.json"), "w") as f:
        json.dump(man, f, indent=1)
    print(f"MANIFEST.json: {len(checks)} checks, {len(na)} not claimed")


if __name__ == "__main__":
    main()
