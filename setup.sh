#!/bin/sh
# offline: put icontract (+deal) beside the repository's interpreter in /verif/.deps (git-ignored); smoke-test imports
cd "$(dirname "$0")" || exit 1
if [ ! -d .deps/icontract ]; then
  /venv/bin/python -m pip install -q --no-index --find-links /opt/veriftools/wheels --target .deps icontract deal \
    || echo "setup: icontract not installable; vlib.attach will use its built-in wrapper"
fi
PYTHONPATH="${VERIF_REPO:-/repo}:$(pwd)" /venv/bin/python - <<'PY'
import vlib, vlib.attach, molgri
print("setup ok: molgri from", molgri.__file__, "icontract:", vlib.attach.HAVE_ICONTRACT)
PY
